--------------------------- MODULE MPParserObjTrace ---------------------------
(* Validation of recorded parse histories: each event <<parser, text id, true line, true version,           *)
(* observed line of the first command, observed version, first parse on this object?>>                     *)
EXTENDS Integers, Sequences, TLC, Json, IOUtils
Traces == ndJsonDeserialize(IOEnv.TRACE_FILE)
VARIABLES tid, l, verdict
T == Traces[tid]
\* whether a text is accepted depends on the text alone: a well-formed one (true line # -1) is never rejected, a malformed one never accepted
Judge(e) == IF (e[5] = -1) # (e[3] = -1) THEN (IF e[5] = -1 THEN "C10.RejectedWellFormed" ELSE "C10.AcceptedMalformed")
            ELSE IF e[5] # e[3] THEN (IF e[7] THEN "C11.NodeLine" ELSE "C11.HistoryDependent")
            ELSE IF e[6] # e[4] THEN "C16.VersionSticky" ELSE "ok"
Init == tid \in 1..Len(Traces) /\ l = 1 /\ verdict = "ok"
Next == l <= Len(T.ev) /\ verdict = "ok" /\ l' = l + 1 /\ verdict' = Judge(T.ev[l]) /\ UNCHANGED tid
Report == (l = Len(T.ev) + 1 \/ verdict # "ok") => PrintT(<<"VERDICT", T.id, verdict, l>>)
=============================================================================
