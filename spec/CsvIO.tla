--------------------------------- MODULE CsvIO ---------------------------------
(***************************************************************************)
(* CSV reading and writing of the EEMS CSV library (C17).                  *)
(* file  == <<header, lines>>; header a sequence of column names;          *)
(*          a line is <<"blank">> or <<"row", cells>>; a cell is           *)
(*          <<"num", id>> (a number; ids stand for concrete doubles),      *)
(*          <<"miss">> (the declared missing value) or <<"bad">> (text     *)
(*          that is not a number)                                          *)
(* Read(file, field, missing, dtype) == <<"ok", cells>> with cells         *)
(*          <<id or "miss", masked>> in row order | <<"err", class, line>> *)
(* Write(names, columns) == the file with that header and one row per cell *)
(***************************************************************************)
EXTENDS Integers, Sequences, FiniteSets, TLC, SequencesExt

Header(f) == f[1]
Lines(f) == f[2]
IndexOf(s, x) == IF \E i \in 1..Len(s) : s[i] = x THEN CHOOSE i \in 1..Len(s) : s[i] = x /\ \A j \in 1..(i - 1) : s[j] # x ELSE 0
Rows(f) == SelectSeq([k \in 1..Len(Lines(f)) |-> <<k, Lines(f)[k]>>], LAMBDA kl : kl[2][1] = "row")     \* <<line index, line>>, blank lines skipped
\* physical line number of line k of the body (the header is line 1)
Phys(k) == k + 1
Read(f, field, missing, dtype) ==
    IF Header(f) = <<>> /\ Lines(f) = <<>> THEN <<"err", "EmptyDataFile", 0>>
    ELSE LET idx == IndexOf(Header(f), field) rows == Rows(f) IN
         IF idx = 0 THEN <<"err", "InvalidDataFile", 0>>
         ELSE IF \E r \in 1..Len(rows) : Len(rows[r][2][2]) < idx THEN <<"err", "Ragged", 0>>      \* a row without that column: any MPilot error
         ELSE IF \E r \in 1..Len(rows) : rows[r][2][2][idx][1] = "bad"
              THEN LET r == CHOOSE r \in 1..Len(rows) : rows[r][2][2][idx][1] = "bad" /\ \A q \in 1..(r - 1) : rows[q][2][2][idx][1] # "bad"
                   IN <<"err", "InvalidDataFile", Phys(rows[r][1])>>
         ELSE <<"ok", [r \in 1..Len(rows) |->
                   LET c == rows[r][2][2][idx] IN
                   IF c[1] = "miss" THEN <<"miss", missing>> ELSE <<c[2], FALSE>>]>>
\* writing: header = names in the listed order, one row per cell
Write(names, cols) == <<names, [r \in 1..Len(cols[1]) |-> <<"row", [c \in 1..Len(cols) |-> <<"num", cols[c][r]>>]>>]>>

\* ---------- the tables explored
CONSTANTS MaxRows, MaxCols
Ids == {"v1", "v2", "v3", "v4"}
CellsFor(bad) == {<<"num", i>> : i \in Ids} \cup {<<"miss">>} \cup (IF bad THEN {<<"bad">>} ELSE {})
Names == <<"a", "b x", "c,d">>
Hdr(n) == SubSeq(Names, 1, n)
DupHdr == <<"a", "a">>          \* a repeated column name: the first one is read
VARIABLES file, field, missing, dtype, out, wfile, back, done
vars == <<file, field, missing, dtype, out, wfile, back, done>>
Init == /\ \E nc \in 1..MaxCols, nr \in 0..MaxRows :
              \E body \in [1..nr -> ({<<"blank">>} \cup {<<"row", cs>> : cs \in [1..nc -> CellsFor(TRUE)]} \cup {<<"row", <<<<"num", "v1">>>>>>})] :
                  /\ Cardinality({k \in 1..nr : body[k] = <<"blank">>}) <= 1
                  /\ Cardinality({k \in 1..nr : body[k][1] = "row" /\ \E c \in 1..Len(body[k][2]) : body[k][2][c][1] = "bad"}) <= 1
                  /\ file \in {<<Hdr(nc), body>>} \cup (IF nc = 2 THEN {<<DupHdr, body>>} ELSE {})
        /\ field \in {"a", "b x", "c,d", "nope", "A", " a"} /\ missing \in BOOLEAN /\ dtype \in {"Float", "Integer"}
        /\ out = <<>> /\ wfile = <<>> /\ back = <<>> /\ done = FALSE
\* read; and, when the read succeeds without missing cells, write the column and its reverse (under two names, listed in non-alphabetical order) and read it back
Apply == /\ ~done /\ done' = TRUE
         /\ out' = Read(file, field, missing, dtype)
         /\ LET o == Read(file, field, missing, dtype) IN
            IF o[1] = "ok" /\ o[2] # <<>> /\ \A r \in 1..Len(o[2]) : o[2][r][1] # "miss"
            THEN LET col == [r \in 1..Len(o[2]) |-> o[2][r][1]] w == Write(<<"x,y", "out 1">>, <<col, Reverse(col)>>) IN
                 wfile' = w /\ back' = Read(w, "x,y", FALSE, dtype)
            ELSE wfile' = <<>> /\ back' = <<>>
         /\ UNCHANGED <<file, field, missing, dtype>>
Next == Apply
\* ---------- properties of the definitions
RowOrder == (done /\ out[1] = "ok") => Len(out[2]) = Len(Rows(file))                              \* one value per non-blank row, in order
ColumnIndependent == (done /\ out[1] = "ok") =>                                                   \* other columns do not matter
    \A r \in 1..Len(out[2]) : LET c == Rows(file)[r][2][2][IndexOf(Header(file), field)] IN out[2][r][1] = (IF c[1] = "miss" THEN "miss" ELSE c[2])
MaskExact == (done /\ out[1] = "ok") => \A r \in 1..Len(out[2]) : out[2][r][2] = (out[2][r][1] = "miss" /\ missing)
RoundTrip == (done /\ back # <<>>) => back = <<"ok", [r \in 1..Len(out[2]) |-> <<out[2][r][1], FALSE>>]>>
ErrorLineIsPhysical == (done /\ out[1] = "err" /\ out[3] > 0) => Lines(file)[out[3] - 1][1] = "row"
=============================================================================
