------------------------------- MODULE EEMSOps -------------------------------
(***************************************************************************)
(* Semantics of the EEMS library commands (mpilot.libraries.eems.basic and *)
(* .fuzzy) on exact rationals, transcribed from the EEMS definitions in    *)
(* docs/user/lib-eems-*.rst.                                               *)
(*                                                                         *)
(*   array   == <<kind, cells>>   kind \in {"i","f"}, cells a sequence of  *)
(*              rationals or MV (missing)                                  *)
(*   params  == sequence of <<name, value>>; value is a rational, a string *)
(*              or a sequence of rationals                                 *)
(*   result  == <<"ok", cells>>  or  <<ErrorClassName, <<>>>>              *)
(*                                                                         *)
(* Everything is positional (sequences only) so that states and recorded   *)
(* observations have the same shape in TLC's output and in JSON.           *)
(***************************************************************************)
EXTENDS Rat, FiniteSets, TLC

Ok(cells) == <<"ok", cells>>
Err(e) == <<e, <<>>>>
IsOk(r) == r[1] = "ok"

Has(p, name) == \E i \in 1..Len(p) : p[i][1] = name
P(p, name) == p[CHOOSE i \in 1..Len(p) : p[i][1] = name][2]
PD(p, name, default) == IF Has(p, name) THEN P(p, name) ELSE default

Cells(a) == a[2]
NCells(ins) == Len(Cells(ins[1]))
\* an array may carry its shape as a third component (otherwise it is one-dimensional)
ShapeOf(a) == IF Len(a) >= 3 THEN a[3] ELSE <<Len(Cells(a))>>
SameShape(ins) == \A i \in 1..Len(ins) : ShapeOf(ins[i]) = ShapeOf(ins[1])
Col(ins, j) == [i \in 1..Len(ins) |-> Cells(ins[i])[j]]
Each(ins, f(_)) == [j \in 1..NCells(ins) |-> f(Col(ins, j))]
Each1(a, f(_)) == [j \in 1..Len(Cells(a)) |-> f(Cells(a)[j])]
Fz(c) == RClamp(c, R(-1), R(1))
ListOp(ins, f(_)) == IF ins = <<>> THEN Err("EmptyInputs")
                     ELSE IF ~SameShape(ins) THEN Err("MixedArrayShapes")
                     ELSE Ok(Each(ins, f))
Dot(w, x) == SumSeq(Zip2(RMul, w, x))

\* ---------- fuzzy logic, one cell position (x = the inputs' values there)
OrC(x) == Fz(MaxSeq(x))
AndC(x) == Fz(MinSeq(x))
UnionC(x) == Fz(MeanSeq(x))
NotC(c) == Fz(RNeg(c))
WUnionC(x, w) == Fz(RDiv(Dot(w, x), SumSeq(w)))
SelC(x, word, k) == IF AnyMV(x) THEN MV
                    ELSE LET s == SortAsc(x) n == Len(x) IN
                         Fz(MeanSeq(IF word = "Truest" THEN SubSeq(s, n - k + 1, n) ELSE SubSeq(s, 1, k)))
\* Truest - (Truest - 2nd Truest) * (2nd Truest - full False) / (Truest - full False); full False when Truest is
XOrC(x) == IF AnyMV(x) THEN MV
           ELSE LET s == SortAsc(x) n == Len(x) t1 == s[n] t2 == s[n - 1] IN
                IF RLe(t1, R(-1)) THEN R(-1)
                ELSE Fz(RSub(t1, RDiv(RMul(RSub(t1, t2), RSub(t2, R(-1))), RSub(t1, R(-1)))))

\* ---------- arithmetic, one cell position
SumC(x) == SumSeq(x)
MulC(x) == ProdSeq(x)
MinC(x) == MinSeq(x)
MaxC(x) == MaxSeq(x)
MeanC(x) == MeanSeq(x)
WSumC(x, w) == Dot(w, x)
WMeanC(x, w) == RDiv(Dot(w, x), SumSeq(w))

\* ---------- conversions, one cell
\* TrueThreshold -> hi, FalseThreshold -> lo, linear
Lin(c, t, f, hi, lo) == RAdd(RDiv(RMul(RSub(c, t), RSub(lo, hi)), RSub(f, t)), hi)
ToFuzzyC(c, t, f) == Fz(Lin(c, t, f, R(1), R(-1)))
FromFuzzyC(c, t, f) == RAdd(RDiv(RMul(RSub(c, R(1)), RSub(f, t)), R(-2)), t)
BinaryC(c, thr, dir) == IF IsMV(c) THEN MV
                        ELSE IF RLt(c, thr) THEN (IF dir = "LowToHigh" THEN R(0) ELSE R(1))
                        ELSE (IF dir = "LowToHigh" THEN R(1) ELSE R(0))
CatC(c, raws, vals, default) == IF IsMV(c) THEN MV
                                ELSE IF \E i \in 1..Len(raws) : raws[i] = c
                                     THEN vals[CHOOSE i \in 1..Len(raws) : raws[i] = c] ELSE default
\* control points <<raw, value>> sorted by raw value
RECURSIVE InsertPair(_, _)
InsertPair(p, s) == IF s = <<>> THEN <<p>> ELSE IF RLe(p[1], Head(s)[1]) THEN <<p>> \o s
                    ELSE <<Head(s)>> \o InsertPair(p, Tail(s))
RECURSIVE SortPairs(_)
SortPairs(s) == IF s = <<>> THEN <<>> ELSE InsertPair(Head(s), SortPairs(Tail(s)))
Pairs(raws, vals) == SortPairs([i \in 1..Len(raws) |-> <<raws[i], vals[i]>>])
CurveC(c, pts) == IF IsMV(c) THEN MV
                  ELSE LET k == Len(pts) IN
                       IF RLe(c, pts[1][1]) THEN pts[1][2]
                       ELSE IF RLt(pts[k][1], c) THEN pts[k][2]
                       ELSE LET i == CHOOSE i \in 2..k : RLt(pts[i - 1][1], c) /\ RLe(c, pts[i][1])
                                m == RDiv(RSub(pts[i][2], pts[i - 1][2]), RSub(pts[i][1], pts[i - 1][1]))
                            IN RAdd(pts[i - 1][2], RMul(m, RSub(c, pts[i - 1][1])))
Distinct(s) == \A i, j \in 1..Len(s) : s[i] = s[j] => i = j

\* ---------- whole-array statistics over the valid cells
VMean(v) == MeanSeq(v)
VVar(v) == LET m == VMean(v) IN MeanSeq([i \in 1..Len(v) |-> RMul(RSub(v[i], m), RSub(v[i], m))])
VStd(v) == RSqrt(VVar(v))                                    \* population standard deviation (MV if irrational)
NDistinct(v) == Cardinality({v[i] : i \in 1..Len(v)})

ZScoreLin(cells, tz, fz, start, end) ==
    LET v == Valid(cells) m == VMean(v) s == VStd(v)
        x1 == RAdd(m, RMul(s, tz)) x2 == RAdd(m, RMul(s, fz)) IN
    [j \in 1..Len(cells) |-> RClamp(Lin(cells[j], x1, x2, end, start), start, end)]

MeanToMidPts(cells, ignoreZeros, vals) ==
    LET v == Valid(cells)
        low == MinSeq(v) high == MaxSeq(v)
        u == IF ignoreZeros THEN SelectSeq(v, LAMBDA c : c # R(0)) ELSE v
        m == VMean(u)
        lowMean == VMean(SelectSeq(u, LAMBDA c : RLe(c, m)))
        highMean == VMean(SelectSeq(u, LAMBDA c : RLt(m, c)))
        raws5 == <<low, lowMean, m, highMean, high>>
        dropHi == high = highMean
        dropLo == low = lowMean
        keep == SelectSeq(<<1, 2, 3, 4, 5>>, LAMBDA i : ~(i = 4 /\ dropHi) /\ ~(i = 2 /\ dropLo))
    IN Pairs([i \in 1..Len(keep) |-> raws5[keep[i]]], [i \in 1..Len(keep) |-> vals[keep[i]]])

\* ---------- the commands
ListCmds == {"FuzzyOr", "FuzzyAnd", "FuzzyUnion", "FuzzyXOr", "FuzzySelectedUnion", "FuzzyWeightedUnion",
             "Sum", "Multiply", "Minimum", "Maximum", "Mean", "WeightedSum", "WeightedMean"}
FuzzyCmds == {"FuzzyOr", "FuzzyAnd", "FuzzyUnion", "FuzzyXOr", "FuzzySelectedUnion", "FuzzyWeightedUnion", "FuzzyNot",
              "CvtToFuzzy", "CvtToFuzzyZScore", "CvtToFuzzyCat", "CvtToFuzzyCurve", "CvtToFuzzyMeanToMid",
              "CvtToFuzzyCurveZScore", "CvtToBinary"}

Weighted(ins, p, f(_, _)) ==
    IF Len(P(p, "Weights")) # Len(ins) THEN Err("MismatchedWeights")
    ELSE IF ins = <<>> THEN Err("EmptyInputs")
    ELSE IF ~SameShape(ins) THEN Err("MixedArrayShapes")
    ELSE Ok([j \in 1..NCells(ins) |-> f(Col(ins, j), P(p, "Weights"))])

AB(ins, f(_, _)) == IF ~SameShape(ins) THEN Err("MixedArrayShapes")
                    ELSE Ok([j \in 1..NCells(ins) |-> f(Cells(ins[1])[j], Cells(ins[2])[j])])

CatSem(a, raws, vals, default, fz) ==
    IF Len(raws) # Len(vals) THEN Err("MixedArrayLengths")
    ELSE IF ~Distinct(raws) THEN Err("DuplicateRawValues")
    ELSE Ok(Each1(a, LAMBDA c : IF fz THEN Fz(CatC(c, raws, vals, default)) ELSE CatC(c, raws, vals, default)))
CurveSem(a, raws, vals, fz) ==
    IF Len(raws) # Len(vals) THEN Err("MixedArrayLengths")
    ELSE IF ~Distinct(raws) THEN Err("DuplicateRawValues")
    ELSE LET pts == Pairs(raws, vals) IN
         Ok(Each1(a, LAMBDA c : IF fz THEN Fz(CurveC(c, pts)) ELSE CurveC(c, pts)))
CurveZSem(a, zs, vals, fz) ==
    IF Len(zs) # Len(vals) THEN Err("MixedArrayLengths")
    ELSE LET v == Valid(Cells(a)) m == VMean(v) s == VStd(v)
             pts == Pairs([i \in 1..Len(zs) |-> RAdd(m, RMul(zs[i], s))], vals) IN
         Ok(Each1(a, LAMBDA c : IF fz THEN Fz(CurveC(c, pts)) ELSE CurveC(c, pts)))
MeanToMidSem(a, p, valsName, fz) ==
    LET pts == MeanToMidPts(Cells(a), P(p, "IgnoreZeros") = "True", P(p, valsName)) IN
    Ok(Each1(a, LAMBDA c : IF fz THEN Fz(CurveC(c, pts)) ELSE CurveC(c, pts)))
ToFuzzySem(a, p) ==
    LET v == Valid(Cells(a))
        dir == PD(p, "Direction", "LowToHigh")
        f == PD(p, "FalseThreshold", IF dir = "HighToLow" THEN MaxSeq(v) ELSE MinSeq(v))
        t == PD(p, "TrueThreshold", IF dir = "HighToLow" THEN MinSeq(v) ELSE MaxSeq(v)) IN
    IF dir \notin {"LowToHigh", "HighToLow"} THEN Err("InvalidDirection")
    ELSE IF t = f THEN Err("InvalidThresholds")
    ELSE Ok(Each1(a, LAMBDA c : ToFuzzyC(c, t, f)))

Sem(cmd, p, ins) ==
    CASE cmd = "FuzzyOr" -> ListOp(ins, OrC)
      [] cmd = "FuzzyAnd" -> ListOp(ins, AndC)
      [] cmd = "FuzzyUnion" -> ListOp(ins, UnionC)
      [] cmd = "FuzzyXOr" -> ListOp(ins, XOrC)
      [] cmd = "FuzzyNot" -> Ok(Each1(ins[1], NotC))
      [] cmd = "FuzzySelectedUnion" ->
            IF ins = <<>> THEN Err("EmptyInputs")
            ELSE IF ~SameShape(ins) THEN Err("MixedArrayShapes")
            ELSE IF Len(ins) < P(p, "NumberToConsider")[1] THEN Err("InvalidNumberToConsider")
            ELSE IF P(p, "TruestOrFalsest") \notin {"Truest", "Falsest"} THEN Err("InvalidTruestOrFalsest")
            ELSE Ok(Each(ins, LAMBDA x : SelC(x, P(p, "TruestOrFalsest"), P(p, "NumberToConsider")[1])))
      [] cmd = "FuzzyWeightedUnion" -> Weighted(ins, p, WUnionC)
      [] cmd = "Sum" -> ListOp(ins, SumC)
      [] cmd = "Multiply" -> ListOp(ins, MulC)
      [] cmd = "Minimum" -> ListOp(ins, MinC)
      [] cmd = "Maximum" -> ListOp(ins, MaxC)
      [] cmd = "Mean" -> ListOp(ins, MeanC)
      [] cmd = "WeightedSum" -> Weighted(ins, p, WSumC)
      [] cmd = "WeightedMean" -> Weighted(ins, p, WMeanC)
      [] cmd = "AMinusB" -> AB(ins, RSub)
      [] cmd = "ADividedByB" -> AB(ins, RDiv)
      [] cmd = "Copy" -> Ok(Cells(ins[1]))
      [] cmd = "CvtToFuzzy" -> ToFuzzySem(ins[1], p)
      [] cmd = "CvtFromFuzzy" ->
            IF P(p, "TrueThreshold") = P(p, "FalseThreshold") THEN Err("InvalidThresholds")
            ELSE Ok(Each1(ins[1], LAMBDA c : FromFuzzyC(c, P(p, "TrueThreshold"), P(p, "FalseThreshold"))))
      [] cmd = "CvtToBinary" ->
            IF P(p, "Direction") \notin {"LowToHigh", "HighToLow"} THEN Err("InvalidDirection")
            ELSE Ok(Each1(ins[1], LAMBDA c : BinaryC(c, P(p, "Threshold"), P(p, "Direction"))))
      [] cmd = "NormalizeCat" -> CatSem(ins[1], P(p, "RawValues"), P(p, "NormalValues"), P(p, "DefaultNormalValue"), FALSE)
      [] cmd = "CvtToFuzzyCat" -> CatSem(ins[1], P(p, "RawValues"), P(p, "FuzzyValues"), P(p, "DefaultFuzzyValue"), TRUE)
      [] cmd = "NormalizeCurve" -> CurveSem(ins[1], P(p, "RawValues"), P(p, "NormalValues"), FALSE)
      [] cmd = "CvtToFuzzyCurve" -> CurveSem(ins[1], P(p, "RawValues"), P(p, "FuzzyValues"), TRUE)
      [] cmd = "NormalizeCurveZScore" -> CurveZSem(ins[1], P(p, "ZScoreValues"), P(p, "NormalValues"), FALSE)
      [] cmd = "CvtToFuzzyCurveZScore" -> CurveZSem(ins[1], P(p, "ZScoreValues"), P(p, "FuzzyValues"), TRUE)
      [] cmd = "NormalizeMeanToMid" -> MeanToMidSem(ins[1], p, "NormalValues", FALSE)
      [] cmd = "CvtToFuzzyMeanToMid" -> MeanToMidSem(ins[1], p, "FuzzyValues", TRUE)
      [] cmd = "Normalize" ->
            LET v == Valid(Cells(ins[1])) lo == MinSeq(v) hi == MaxSeq(v)
                start == PD(p, "StartVal", R(0)) end == PD(p, "EndVal", R(1)) IN
            Ok(Each1(ins[1], LAMBDA c : Lin(c, lo, hi, start, end)))
      [] cmd = "NormalizeZScore" ->
            \* documented defaults (docs/user/lib-eems-basic.rst): the true threshold is the z score 1, the false threshold the z score 0
            Ok(ZScoreLin(Cells(ins[1]), PD(p, "TrueThresholdZScore", R(1)), PD(p, "FalseThresholdZScore", R(0)),
                         PD(p, "StartVal", R(0)), PD(p, "EndVal", R(1))))
      [] cmd = "CvtToFuzzyZScore" ->
            Ok(MapSeq(Fz, ZScoreLin(Cells(ins[1]), PD(p, "TrueThresholdZScore", R(1)), PD(p, "FalseThresholdZScore", R(-1)),
                                    R(-1), R(1))))
      [] OTHER -> Err("Spec.UnknownCommand")

\* ---------- generic facts about results
MissingIn(ins, j) == \E i \in 1..Len(ins) : IsMV(Cells(ins[i])[j])
InRange(r) == IsOk(r) => \A j \in 1..Len(r[2]) : IsMV(r[2][j]) \/ (RLe(R(-1), r[2][j]) /\ RLe(r[2][j], R(1)))
PermuteCells(a, pi) == <<a[1], [j \in 1..Len(pi) |-> Cells(a)[pi[j]]]>>
=============================================================================
