--------------------------- MODULE MPRegistryTrace ---------------------------
(* record == [id, ev]; ev[k] = <<"import"|"define", arg, <<>>>> or <<"program", libs, <<"table", set-as-sequence of <<module, name>>>>>>     *)
(* or <<"program", libs, <<"error", <<>>>>>>: what the real Program construction produced (restricted to the model's command names).      *)
EXTENDS MPRegistry, Json, IOUtils
Traces == ndJsonDeserialize(IOEnv.TRACE_FILE)
VARIABLES tid, l, verdict
T == Traces[tid]
SeqSet(s) == {s[i] : i \in 1..Len(s)}
Judge(e) == IF e[1] # "program" THEN "ok"
            ELSE LET want == Ideal(e[2]) IN
                 IF want[1] = "error" THEN (IF e[3][1] = "error" THEN "ok" ELSE "C19.MissedDuplicate")
                 ELSE IF e[3][1] = "error" THEN "C19.SpuriousDuplicate"
                 ELSE IF SeqSet(e[3][2]) # want[2] THEN "C19.TableNotIdeal" ELSE "ok"
TInit == tid \in 1..Len(Traces) /\ l = 1 /\ verdict = "ok" /\ registry = {} /\ hist = <<>>
TNext == l <= Len(T.ev) /\ verdict = "ok" /\ l' = l + 1 /\ verdict' = Judge(T.ev[l]) /\ UNCHANGED <<tid, registry, hist>>
TReport == (l = Len(T.ev) + 1 \/ verdict # "ok") => PrintT(<<"VERDICT", T.id, verdict, l>>)
=============================================================================
