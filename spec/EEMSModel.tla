-------------------------------- MODULE EEMSModel --------------------------------
(***************************************************************************)
(* Whole EEMS models (C02).  A builder state machine: every behaviour adds *)
(* one command at a time, wired only to earlier results of compatible      *)
(* fuzziness (reads of table columns first), so a behaviour of length n is *)
(* a typed dependency graph on n commands of varied depth and fan-in.      *)
(* The expected array of every node is the mathematical evaluation of the  *)
(* graph through EEMSOps.Sem (Val); it depends on nothing but the node's   *)
(* own sub-graph - not on the order of the file, not on other consumers.   *)
(***************************************************************************)
EXTENDS EEMSOps, SequencesExt
CONSTANTS MaxNodes, TableId

\* ---------- input tables: columns <<name, array>>
Tables == <<
  << <<"a", <<"f", <<R(-1), R(0), R(2), R(4)>>>>>>, <<"b", <<"f", <<R(1), MV, R(2), R(0)>>>>>>, <<"c", <<"i", <<R(0), R(1), R(2), R(4)>>>>>>,
     <<"d", <<"f", <<Q(1, 2), R(1), R(-1), R(2)>>>>>> >>,
  << <<"a", <<"f", <<R(4), MV, R(-1), R(1)>>>>>>, <<"b", <<"i", <<R(2), R(2), R(0), R(-1)>>>>>>, <<"c", <<"f", <<Q(1, 4), Q(-3, 4), R(1), MV>>>>>>,
     <<"d", <<"i", <<R(1), MV, R(4), R(0)>>>>>> >>,
  << <<"a", <<"i", <<R(0), R(0), R(2), R(4)>>>>>>, <<"b", <<"f", <<R(-1), R(1), R(1), R(-1)>>>>>>, <<"c", <<"f", <<R(2), R(4), MV, MV>>>>>>,
     <<"d", <<"f", <<R(0), R(2), R(4), R(-1)>>>>>> >> >>
Table == Tables[TableId]
Column(name) == Table[CHOOSE k \in 1..Len(Table) : Table[k][1] = name][2]
ColNames == {Table[k][1] : k \in 1..Len(Table)}

\* ---------- commands, their typing and parameter options
FuzzyIn == {"FuzzyOr", "FuzzyAnd", "FuzzyUnion", "FuzzyXOr", "FuzzySelectedUnion", "FuzzyWeightedUnion", "FuzzyNot", "CvtFromFuzzy"}
AnyIn == {"Copy"}
Single == {"Copy", "FuzzyNot", "CvtFromFuzzy", "CvtToFuzzy", "CvtToBinary", "CvtToFuzzyCat", "CvtToFuzzyCurve", "CvtToFuzzyZScore", "CvtToFuzzyCurveZScore",
           "CvtToFuzzyMeanToMid", "Normalize", "NormalizeZScore", "NormalizeCat", "NormalizeCurve", "NormalizeCurveZScore", "NormalizeMeanToMid"}
Pair == {"AMinusB", "ADividedByB"}
Multi == {"FuzzyOr", "FuzzyAnd", "FuzzyUnion", "FuzzyXOr", "FuzzySelectedUnion", "FuzzyWeightedUnion", "Sum", "Multiply", "Minimum", "Maximum", "Mean",
          "WeightedSum", "WeightedMean"}
Cmds == Single \cup Pair \cup Multi
WVec(n) == SubSeq(<<R(1), R(2), Q(1, 2)>>, 1, n)
Options(cmd, n) ==
    CASE cmd = "CvtToFuzzy" -> << <<>>, << <<"TrueThreshold", R(3)>>, <<"FalseThreshold", R(-1)>> >>, << <<"Direction", "HighToLow">> >> >>
      [] cmd = "CvtFromFuzzy" -> << << <<"TrueThreshold", R(10)>>, <<"FalseThreshold", R(0)>> >> >>
      [] cmd = "CvtToBinary" -> << << <<"Threshold", R(1)>>, <<"Direction", "LowToHigh">> >>, << <<"Threshold", Q(1, 2)>>, <<"Direction", "HighToLow">> >> >>
      [] cmd = "CvtToFuzzyCat" -> << << <<"RawValues", <<R(0), R(1), R(2)>>>>, <<"FuzzyValues", <<R(-1), Q(1, 4), R(3)>>>>, <<"DefaultFuzzyValue", Q(-1, 2)>> >> >>
      [] cmd = "NormalizeCat" -> << << <<"RawValues", <<R(0), R(4)>>>>, <<"NormalValues", <<R(5), R(-5)>>>>, <<"DefaultNormalValue", R(1)>> >> >>
      [] cmd = "CvtToFuzzyCurve" -> << << <<"RawValues", <<R(2), R(-1), R(0)>>>>, <<"FuzzyValues", <<R(1), R(-1), Q(1, 4)>>>> >> >>
      [] cmd = "NormalizeCurve" -> << << <<"RawValues", <<R(0), R(4)>>>>, <<"NormalValues", <<R(0), R(2)>>>> >> >>
      [] cmd = "CvtToFuzzyZScore" -> << <<>>, << <<"TrueThresholdZScore", Q(1, 2)>>, <<"FalseThresholdZScore", R(-1)>> >> >>
      [] cmd = "NormalizeZScore" -> << << <<"TrueThresholdZScore", R(1)>>, <<"FalseThresholdZScore", R(-1)>> >>,
                                      << <<"TrueThresholdZScore", R(1)>>, <<"FalseThresholdZScore", R(-1)>>, <<"StartVal", R(-2)>>, <<"EndVal", R(2)>> >> >>
      [] cmd = "CvtToFuzzyCurveZScore" -> << << <<"ZScoreValues", <<R(-1), R(0), R(1)>>>>, <<"FuzzyValues", <<R(-1), R(0), R(1)>>>> >> >>
      [] cmd = "NormalizeCurveZScore" -> << << <<"ZScoreValues", <<R(1), R(-1)>>>>, <<"NormalValues", <<R(10), R(0)>>>> >> >>
      [] cmd = "CvtToFuzzyMeanToMid" -> << << <<"IgnoreZeros", "False">>, <<"FuzzyValues", <<R(-1), Q(-1, 2), R(0), Q(1, 2), R(1)>>>> >>,
                                          << <<"IgnoreZeros", "True">>, <<"FuzzyValues", <<R(-1), Q(-1, 2), R(0), Q(1, 2), R(1)>>>> >> >>
      [] cmd = "NormalizeMeanToMid" -> << << <<"IgnoreZeros", "False">>, <<"NormalValues", <<R(0), R(1), R(2), R(3), R(4)>>>> >> >>
      [] cmd = "Normalize" -> << <<>>, << <<"StartVal", R(-1)>>, <<"EndVal", R(1)>> >> >>
      [] cmd = "FuzzySelectedUnion" -> << << <<"TruestOrFalsest", "Truest">>, <<"NumberToConsider", R(1)>> >>, << <<"TruestOrFalsest", "Falsest">>, <<"NumberToConsider", R(n)>> >> >>
      [] cmd \in {"FuzzyWeightedUnion", "WeightedSum", "WeightedMean"} -> << << <<"Weights", WVec(n)>> >> >>
      [] OTHER -> << <<>> >>

VARIABLES nodes      \* sequence of <<command, params, inputs>>; inputs = column name (read) or sequence of earlier node indices
vars == <<nodes>>
IsRead(k) == nodes[k][1] = "EEMSRead"
IsFuzzyNode(k) == nodes[k][1] \in FuzzyCmds
Compatible(cmd, k) == cmd \in AnyIn \/ (cmd \in FuzzyIn <=> IsFuzzyNode(k))
Cands(cmd) == {k \in 1..Len(nodes) : Compatible(cmd, k)}
Init == nodes = <<>>
AddRead(c) == /\ Len(nodes) < MaxNodes /\ ~\E k \in 1..Len(nodes) : IsRead(k) /\ nodes[k][3] = c
              /\ nodes' = Append(nodes, <<"EEMSRead", <<>>, c>>)
AddCmd(cmd, ins, o) == /\ Len(nodes) < MaxNodes /\ o \in 1..Len(Options(cmd, Len(ins)))
                       /\ nodes' = Append(nodes, <<cmd, Options(cmd, Len(ins))[o], ins>>)
Next == \/ \E c \in ColNames : AddRead(c)
        \/ \E cmd \in Single : \E i \in Cands(cmd), o \in 1..3 : AddCmd(cmd, <<i>>, o)
        \/ \E cmd \in Pair : \E i \in Cands(cmd), j \in Cands(cmd), o \in 1..1 : AddCmd(cmd, <<i, j>>, o)
        \/ \E cmd \in Multi : \E i \in Cands(cmd), o \in 1..2 :
              \/ (cmd # "FuzzyXOr" /\ AddCmd(cmd, <<i>>, o))
              \/ \E j \in Cands(cmd) : AddCmd(cmd, <<i, j>>, o) \/ \E k \in Cands(cmd) : AddCmd(cmd, <<i, j, k>>, o)
Spec == Init /\ [][Next]_vars

\* ---------- evaluation of the graph, bottom-up: Eval(ns, k) is the sequence of the values of nodes 1..k (BadNode from the first
\* node on whose preconditions fail: data-dependent commands are only defined on data with enough distinct values / a rational
\* standard deviation, and every value must stay identifiable from its float)
BadNode == <<"bad", <<>>>>
NeedsSpread == {"Normalize", "NormalizeZScore", "CvtToFuzzyZScore", "NormalizeCurveZScore", "CvtToFuzzyCurveZScore", "NormalizeMeanToMid", "CvtToFuzzyMeanToMid"}
NeedsStd == {"NormalizeZScore", "CvtToFuzzyZScore", "NormalizeCurveZScore", "CvtToFuzzyCurveZScore"}
Pre(node, prev) ==
    node[1] = "EEMSRead" \/
    LET cmd == node[1] p == node[2] v == Valid(prev[node[3][1]][2]) IN
    /\ \A m \in 1..Len(node[3]) : Valid(prev[node[3][m]][2]) # <<>>
    /\ (cmd \in NeedsSpread \/ (cmd = "CvtToFuzzy" /\ ~(Has(p, "TrueThreshold") /\ Has(p, "FalseThreshold"))) => NDistinct(v) >= 2)
    /\ (cmd \in NeedsStd => (\A j \in 1..Len(v) : Abs(v[j][1]) <= 2000 /\ v[j][2] <= 64) /\ ~IsMV(VStd(v)))       \* squares stay small
    /\ (cmd = "Multiply" /\ Len(node[3]) = 3 => \A m \in 1..3 : \A j \in 1..Len(prev[node[3][m]][2]) :
            Abs(prev[node[3][m]][2][j][1]) <= 1000 /\ prev[node[3][m]][2][j][2] <= 100)
    /\ (cmd \in {"NormalizeMeanToMid", "CvtToFuzzyMeanToMid"} /\ P(p, "IgnoreZeros") = "True" => NDistinct(SelectSeq(v, LAMBDA c : c # R(0))) >= 2)
NodeVal(node, prev) == IF node[1] = "EEMSRead" THEN Ok(Cells(Column(node[3])))
                       ELSE Sem(node[1], node[2], [m \in 1..Len(node[3]) |-> <<"f", prev[node[3][m]][2]>>])
\* values are kept small: identifiable from their floats, and far from TLC's 32-bit limit in the next command's arithmetic
Post(r) == /\ IsOk(r) /\ Valid(r[2]) # <<>>
           /\ \A j \in 1..Len(r[2]) : Abs(r[2][j][1]) <= 30000 /\ r[2][j][2] <= 1000
RECURSIVE Eval(_, _)
Eval(ns, k) == IF k = 0 THEN <<>>
               ELSE LET prev == Eval(ns, k - 1) IN
                    IF \E j \in 1..Len(prev) : prev[j] = BadNode THEN Append(prev, BadNode)
                    ELSE IF ~Pre(ns[k], prev) THEN Append(prev, BadNode)
                    ELSE LET r == NodeVal(ns[k], prev) IN IF Post(r) THEN Append(prev, r) ELSE Append(prev, BadNode)
AllAdmissible(ns) == LET e == Eval(ns, Len(ns)) IN \A k \in 1..Len(e) : e[k] # BadNode
Val(ns, k) == Eval(ns, k)[k]
\* C02 on the definitions: the value of a node is that of its own sub-graph, whatever was added afterwards
PrefixStable == AllAdmissible(nodes) => LET e == Eval(nodes, Len(nodes)) IN \A k \in 1..Len(nodes) : e[k] = Eval(SubSeq(nodes, 1, k), k)[k]
Report == Len(nodes) = MaxNodes =>
             LET e == Eval(nodes, Len(nodes)) ok == \A k \in 1..Len(e) : e[k] # BadNode IN
             PrintT(<<"MODEL", TableId, nodes, ok, IF ok THEN [k \in 1..Len(nodes) |-> e[k][2]] ELSE <<>>>>)
\* ---------- every ordered producer / consumer pair (INIT PairInit, no steps): two reads and two fuzzy conversions as a base,
\* the producer on the base, the consumer on the producer (filled up with base nodes of the right fuzziness)
\* (columns a and b: in table 2 only the first has a missing cell, in table 1 only the second, in table 3 neither)
Base == << <<"EEMSRead", <<>>, "a">>, <<"EEMSRead", <<>>, "b">>,
           <<"CvtToFuzzy", << <<"TrueThreshold", R(3)>>, <<"FalseThreshold", R(-1)>> >>, <<1>>>>, <<"CvtToFuzzy", <<>>, <<2>>>> >>
Arity(cmd) == IF cmd \in Single THEN 1 ELSE 2
BaseIns(cmd) == IF cmd \in FuzzyIn THEN <<3, 4>> ELSE <<1, 2>>
OnBase(cmd, o) == <<cmd, Options(cmd, Arity(cmd))[o], SubSeq(BaseIns(cmd), 1, Arity(cmd))>>
OnProducer(cmd, o, pf) == <<cmd, Options(cmd, Arity(cmd))[o], IF Arity(cmd) = 1 THEN <<5>> ELSE <<5, (IF pf THEN 4 ELSE 2)>>>>
PairInit == \E pc \in Cmds, cc \in Cmds, po \in 1..3, co \in 1..3 :
               /\ po <= Len(Options(pc, Arity(pc))) /\ co <= Len(Options(cc, Arity(cc)))
               /\ (cc \in AnyIn \/ (cc \in FuzzyIn <=> pc \in FuzzyCmds))
               /\ nodes = Base \o <<OnBase(pc, po), OnProducer(cc, co, pc \in FuzzyCmds)>>
PairNext == FALSE /\ UNCHANGED nodes
PairReport == LET e == Eval(nodes, Len(nodes)) ok == \A k \in 1..Len(e) : e[k] # BadNode IN
              PrintT(<<"MODEL", TableId, nodes, ok, IF ok THEN [k \in 1..Len(nodes) |-> e[k][2]] ELSE <<>>>>)

=============================================================================
