------------------------------ MODULE MPLexTrace ------------------------------
(* Validation of recorded string lexing: record == [id, mode, s, q, same, err];  `same`: the value the real lexer   *)
(* delivered equals the written string (character for character).  MPLex says when that is demanded.               *)
EXTENDS Integers, Sequences, TLC, Json, IOUtils
Traces == ndJsonDeserialize(IOEnv.TRACE_FILE)
VARIABLES tid, verdict
T == Traces[tid]
Judge(t) == IF t.same THEN "ok"
            ELSE IF t.mode = "quoted" THEN (IF t.err = "" \/ t.err = "SyntaxError" THEN "C10.QuotedString" ELSE "C10.NotSyntaxError")
            ELSE "C10.BareString"
Init == tid \in 1..Len(Traces) /\ verdict = "pending"
Next == verdict = "pending" /\ verdict' = Judge(T) /\ UNCHANGED tid
Report == verdict # "pending" => PrintT(<<"VERDICT", T.id, verdict>>)
=============================================================================
