------------------------------ MODULE EEMSCases ------------------------------
(***************************************************************************)
(* Case machine for the library semantics: Init chooses the input arrays   *)
(* of a family (a lattice point for cell-wise commands, a short array for  *)
(* data-dependent ones); Apply evaluates every (command, parameters) entry *)
(* of the family on them.  The invariants are the algebraic laws of C03-   *)
(* C08; the states are the replay plan for the implementation.             *)
(***************************************************************************)
EXTENDS EEMSOps, SequencesExt

CONSTANTS Family,     \* "fz" | "ar" | "cvc" | "ff" | "cva" | "shape"
          NIn,        \* number of input arrays
          LenA,       \* cells per array (1 for cell-wise families)
          Wide,       \* fz: inputs outside [-1,1] as well;  weights/params from the larger sets
          WithMV      \* lattice includes the missing cell

VARIABLES ins, out, done
vars == <<ins, out, done>>

\* ---------- lattices
Quarter == {Q(k, 4) : k \in -4..4}
WideFz == {Q(k, 2) : k \in -4..4}
Halves == {Q(k, 2) : k \in -4..4}
Ints == {R(k) : k \in -2..2}
RawF == {Q(k, 2) : k \in -4..8}
RawI == {R(k) : k \in -2..4} \cup {R(100000), R(100001), R(100002)}      \* (large neighbouring category codes: a lookup is by equality, not closeness)
Small == {R(-1), R(0), R(1), R(2), R(4)}
OptMV(S) == IF WithMV THEN S \cup {MV} ELSE S
ArraysOf(kind, S) == {<<kind, c>> : c \in [1..LenA -> OptMV(S)]}

FzArrays == ArraysOf("f", IF Wide THEN WideFz ELSE Quarter)
ArArrays == ArraysOf("f", Halves) \cup ArraysOf("i", Ints)
CvcArrays == ArraysOf("f", RawF) \cup ArraysOf("i", RawI)
TwoDistinct(a) == NDistinct(Valid(Cells(a))) >= 2
\* longer arrays whose standard deviation is rational and whose z scores are not all +-1 (-1, -1/3, -1/3, 5/3): they tell apart z-score thresholds
\* that the two-valued short arrays cannot (all arrays over Small of length <= 3 with a rational deviation have z scores +-1)
ZExtra == { <<"f", <<R(0), R(1), R(1), R(4)>>>>, <<"f", <<R(4), R(1), R(0), R(1)>>>>, <<"i", <<R(1), R(0), R(4), R(1)>>>>, <<"f", <<R(1), MV, R(4), R(1), R(0)>>>> }
\* constant data with a missing cell: Normalize has nothing to spread (0/0: every cell missing), and the missing cell stays missing
ConstExtra == { <<"f", <<R(2), MV, R(2)>>>>, <<"i", <<R(4), R(4), MV>>>>, <<"f", <<MV, Q(1, 2), Q(1, 2), Q(1, 2)>>>> }
CvaArrays == {a \in ArraysOf("f", Small) \cup ArraysOf("i", Small) : TwoDistinct(a)} \cup (IF LenA = 3 THEN ZExtra \cup (IF WithMV THEN ConstExtra ELSE {}) ELSE {})

\* inputs that the list commands must reject: no input at all, arrays of different lengths
A2 == <<"f", <<R(1), R(2)>>>>
A3 == <<"f", <<R(1), R(2), R(3)>>>>
I3 == <<"i", <<R(1), MV, R(3)>>>>
\* same number of cells, different shapes (some of them broadcast-compatible)
G23 == <<"f", <<R(1), R(2), R(3), R(4), R(5), R(6)>>, <<2, 3>>>>
G32 == <<"f", <<R(1), R(2), R(3), R(4), R(5), R(6)>>, <<3, 2>>>>
G6 == <<"f", <<R(1), R(2), R(3), R(4), R(5), R(6)>>, <<6>>>>
G16 == <<"i", <<R(1), R(2), R(3), R(4), R(5), R(6)>>, <<1, 6>>>>
G61 == <<"f", <<R(1), R(2), R(3), R(4), R(5), R(6)>>, <<6, 1>>>>
ErrIns == {<<>>, <<A2, A3>>, <<A3, A2>>, <<A2, A2, A3>>, <<I3, A2>>, <<A3, I3, A2>>,
           <<G23, G32>>, <<G6, G16>>, <<G16, G61>>, <<G23, G23, G32>>, <<G61, G6>>, <<G23, G6>>}

InsSet == CASE Family = "fz" -> [1..NIn -> FzArrays]
            [] Family = "ar" -> [1..NIn -> ArArrays]
            [] Family = "cvc" -> [1..1 -> CvcArrays]
            [] Family = "ff" -> [1..1 -> FzArrays]
            [] Family = "cva" -> [1..1 -> CvaArrays]
            [] Family = "arerr" -> ErrIns

\* ---------- parameter lattices (sequences, so that entries have a fixed order)
Ones(n) == [i \in 1..n |-> R(1)]
WeightVecs(n) ==
    IF Wide
    THEN SetToSeq([1..n -> {R(1), R(2), R(0), R(-1), Q(1, 2), R(3)}])
    ELSE <<Ones(n), [i \in 1..n |-> R(i)], [i \in 1..n |-> IF i = 1 THEN Q(1, 2) ELSE IF i = 2 THEN R(0) ELSE R(2)],
           [i \in 1..n |-> IF i = 1 THEN R(-1) ELSE R(1)], [i \in 1..n |-> IF i = 1 THEN R(1) ELSE IF i = 2 THEN R(-1) ELSE R(0)],
           [i \in 1..n |-> Q(3, 2)], [i \in 1..n |-> R(0)]>>        \* (all weights zero: a zero weight sum also for a single input)
W(w) == << <<"Weights", w>> >>

FzEntries(n) ==
    << <<"FuzzyOr", <<>>>>, <<"FuzzyAnd", <<>>>>, <<"FuzzyUnion", <<>>>> >>
    \o (IF n >= 2 THEN << <<"FuzzyXOr", <<>>>> >> ELSE << <<"FuzzyNot", <<>>>> >>)
    \o [i \in 1..(2 * n) |-> <<"FuzzySelectedUnion",
            << <<"TruestOrFalsest", IF i <= n THEN "Truest" ELSE "Falsest">>, <<"NumberToConsider", R(((i - 1) % n) + 1)>> >> >>]
    \o << <<"FuzzySelectedUnion", << <<"TruestOrFalsest", "Truest">>, <<"NumberToConsider", R(n + 1)>> >> >>,
          <<"FuzzySelectedUnion", << <<"TruestOrFalsest", "Middle">>, <<"NumberToConsider", R(1)>> >> >> >>
    \o [i \in 1..Len(WeightVecs(n)) |-> <<"FuzzyWeightedUnion", W(WeightVecs(n)[i])>>]
    \o << <<"FuzzyWeightedUnion", W(Ones(n + 1))>> >>

ArEntries(n) ==
    << <<"Sum", <<>>>>, <<"Multiply", <<>>>>, <<"Minimum", <<>>>>, <<"Maximum", <<>>>>, <<"Mean", <<>>>> >>
    \o [i \in 1..Len(WeightVecs(n)) |-> <<"WeightedSum", W(WeightVecs(n)[i])>>]
    \o [i \in 1..Len(WeightVecs(n)) |-> <<"WeightedMean", W(WeightVecs(n)[i])>>]
    \o << <<"WeightedSum", W(Ones(n + 1))>>, <<"WeightedMean", W(IF n > 1 THEN Ones(n - 1) ELSE Ones(2))>>,
          <<"WeightedSum", W(<<>>)>>, <<"WeightedMean", W(<<>>)>> >>             \* (no weights at all is a count mismatch too)
    \o (IF n = 2 THEN << <<"AMinusB", <<>>>>, <<"ADividedByB", <<>>>> >> ELSE <<>>)
    \o (IF n = 1 THEN << <<"Copy", <<>>>> >> ELSE <<>>)

TF(t, f) == << <<"TrueThreshold", t>>, <<"FalseThreshold", f>> >>
Thresholds == IF Wide
              THEN SetToSeq({<<t, f>> \in {R(-2), R(0), R(1), Q(5, 2), R(4)} \X {R(-2), R(0), R(1), Q(5, 2), R(4)} : TRUE})
              ELSE << <<R(2), R(0)>>, <<R(0), R(2)>>, <<R(1), R(-1)>>, <<Q(5, 2), Q(-1, 2)>>, <<R(-1), R(3)>>, <<R(1), R(1)>>,
                      <<R(100), R(-100)>>, <<Q(1, 4), R(0)>> >>
CatTables == << <<<<R(0), R(1), R(2)>>, <<Q(-1, 2), R(0), Q(1, 2)>>, R(1)>>,
                <<<<R(2), R(-1)>>, <<R(5), R(-3)>>, R(9)>>,                      \* values outside [-1,1]
                <<<<R(1)>>, <<Q(1, 4)>>, Q(-3, 4)>>,
                <<<<R(100000), R(100001)>>, <<R(-1), Q(1, 2)>>, R(0)>>,
                <<<<>>, <<>>, R(0)>>,
                <<<<R(0), R(1)>>, <<R(1)>>, R(0)>>,                                \* MixedArrayLengths
                <<<<R(1), R(1)>>, <<R(0), R(1)>>, R(0)>> >>                        \* DuplicateRawValues
Curves == << <<<<R(0), R(2)>>, <<R(-1), R(1)>>>>,
             <<<<R(2), R(0)>>, <<R(1), R(-1)>>>>,                                 \* same curve, other order
             <<<<R(0), R(1), R(3)>>, <<R(-1), Q(1, 2), R(1)>>>>,
             <<<<R(3), R(0), R(1)>>, <<R(1), R(-1), Q(1, 2)>>>>,
             <<<<R(1), R(3), R(0)>>, <<Q(1, 2), R(1), R(-1)>>>>,
             <<<<R(-1), R(1), R(2), R(4)>>, <<R(2), R(-3), R(0), Q(3, 2)>>>>,      \* non-monotone, out of range
             <<<<R(1)>>, <<Q(1, 4)>>>>,                                           \* single point
             <<<<R(0), R(1)>>, <<R(1)>>>>,                                        \* MixedArrayLengths
             <<<<R(1), R(1)>>, <<R(0), R(1)>>>> >>                                \* DuplicateRawValues
CvcEntries ==
    [i \in 1..Len(Thresholds) |-> <<"CvtToFuzzy", TF(Thresholds[i][1], Thresholds[i][2])>>]
    \o << <<"CvtToFuzzy", TF(R(2), R(0)) \o << <<"Direction", "HighToLow">> >> >>,
          <<"CvtToFuzzy", TF(R(2), R(0)) \o << <<"Direction", "LowToHigh">> >> >>,
          <<"CvtToFuzzy", TF(R(2), R(0)) \o << <<"Direction", "Sideways">> >> >> >>
    \o [i \in 1..6 |-> <<"CvtToBinary", << <<"Threshold", <<R(0), R(1), Q(1, 2)>>[((i - 1) % 3) + 1]>>,
                                         <<"Direction", IF i <= 3 THEN "LowToHigh" ELSE "HighToLow">> >> >>]
    \o << <<"CvtToBinary", << <<"Threshold", R(0)>>, <<"Direction", "Up">> >> >> >>
    \o [i \in 1..Len(CatTables) |-> <<"NormalizeCat", << <<"RawValues", CatTables[i][1]>>, <<"NormalValues", CatTables[i][2]>>,
                                                         <<"DefaultNormalValue", CatTables[i][3]>> >> >>]
    \o [i \in 1..Len(CatTables) |-> <<"CvtToFuzzyCat", << <<"RawValues", CatTables[i][1]>>, <<"FuzzyValues", CatTables[i][2]>>,
                                                          <<"DefaultFuzzyValue", CatTables[i][3]>> >> >>]
    \o [i \in 1..Len(Curves) |-> <<"NormalizeCurve", << <<"RawValues", Curves[i][1]>>, <<"NormalValues", Curves[i][2]>> >> >>]
    \o [i \in 1..Len(Curves) |-> <<"CvtToFuzzyCurve", << <<"RawValues", Curves[i][1]>>, <<"FuzzyValues", Curves[i][2]>> >> >>]

FfEntries == [i \in 1..Len(Thresholds) |-> <<"CvtFromFuzzy", TF(Thresholds[i][1], Thresholds[i][2])>>]

Dirs == << <<>>, << <<"Direction", "LowToHigh">> >>, << <<"Direction", "HighToLow">> >> >>
ZPairs == << <<R(1), R(-1)>>, <<R(-1), R(1)>>, <<R(2), R(0)>>, <<Q(1, 2), R(-2)>> >>
ZCurves == << <<<<R(-1), R(0), R(1)>>, <<R(-1), R(0), R(1)>>>>, <<<<R(1), R(-1)>>, <<R(2), R(-2)>>>>,
              <<<<R(0), R(1), R(2)>>, <<R(0), R(1), R(1)>>>>, <<<<R(0)>>, <<R(1)>>>> >>
MidVals == << <<R(-1), Q(-1, 5), R(0), Q(2, 5), R(1)>>, <<R(0), Q(1, 4), Q(1, 2), Q(3, 4), R(1)>>, <<R(2), R(1), R(0), R(-1), R(-2)>> >>
HasStd(a) == ~IsMV(VStd(Valid(Cells(a))))
MidOk(a, ign) == NDistinct(IF ign THEN SelectSeq(Valid(Cells(a)), LAMBDA c : c # R(0)) ELSE Valid(Cells(a))) >= 2
CvaEntries(a) ==
    IF ~TwoDistinct(a) THEN << <<"Normalize", <<>>>>, <<"Normalize", << <<"StartVal", R(-1)>>, <<"EndVal", R(1)>> >> >> >> ELSE
    [i \in 1..3 |-> <<"CvtToFuzzy", Dirs[i]>>]
    \o [i \in 1..3 |-> <<"CvtToFuzzy", << <<"TrueThreshold", R(3)>> >> \o Dirs[i]>>]
    \o [i \in 1..3 |-> <<"CvtToFuzzy", << <<"FalseThreshold", Q(1, 2)>> >> \o Dirs[i]>>]
    \* (one explicit threshold that may coincide with the data extreme the other one defaults to: equal thresholds are an error, not a division by zero)
    \o [i \in 1..3 |-> <<"CvtToFuzzy", << <<"TrueThreshold", R(-1)>> >> \o Dirs[i]>>]
    \o [i \in 1..3 |-> <<"CvtToFuzzy", << <<"FalseThreshold", R(4)>> >> \o Dirs[i]>>]
    \o << <<"Normalize", <<>>>>, <<"Normalize", << <<"StartVal", R(-1)>>, <<"EndVal", R(1)>> >> >>,
          <<"Normalize", << <<"StartVal", R(2)>> , <<"EndVal", R(10)>> >> >>, <<"Normalize", << <<"EndVal", R(5)>> >> >> >>
    \o (IF HasStd(a)
        THEN [i \in 1..Len(ZPairs) |-> <<"NormalizeZScore", << <<"TrueThresholdZScore", ZPairs[i][1]>>, <<"FalseThresholdZScore", ZPairs[i][2]>> >> >>]
             \o [i \in 1..Len(ZPairs) |-> <<"NormalizeZScore", << <<"TrueThresholdZScore", ZPairs[i][1]>>, <<"FalseThresholdZScore", ZPairs[i][2]>>,
                                                                   <<"StartVal", R(-1)>>, <<"EndVal", R(1)>> >> >>]
             \o [i \in 1..Len(ZPairs) |-> <<"CvtToFuzzyZScore", << <<"TrueThresholdZScore", ZPairs[i][1]>>, <<"FalseThresholdZScore", ZPairs[i][2]>> >> >>]
             \o << <<"CvtToFuzzyZScore", <<>>>>, <<"NormalizeZScore", <<>>>>, <<"NormalizeZScore", << <<"TrueThresholdZScore", R(2)>> >> >>,
                    <<"NormalizeZScore", << <<"FalseThresholdZScore", R(-1)>>, <<"EndVal", R(4)>> >> >> >>
             \o [i \in 1..Len(ZCurves) |-> <<"NormalizeCurveZScore", << <<"ZScoreValues", ZCurves[i][1]>>, <<"NormalValues", ZCurves[i][2]>> >> >>]
             \o [i \in 1..Len(ZCurves) |-> <<"CvtToFuzzyCurveZScore", << <<"ZScoreValues", ZCurves[i][1]>>, <<"FuzzyValues", ZCurves[i][2]>> >> >>]
             \o << <<"NormalizeCurveZScore", << <<"ZScoreValues", <<R(0), R(1)>>>>, <<"NormalValues", <<R(0)>>>> >> >> >>
        ELSE <<>>)
    \o FlattenSeq([g \in 1..2 |->
          IF MidOk(a, g = 2)
          THEN [i \in 1..Len(MidVals) |-> <<"NormalizeMeanToMid", << <<"IgnoreZeros", IF g = 2 THEN "True" ELSE "False">>, <<"NormalValues", MidVals[i]>> >> >>]
               \o [i \in 1..Len(MidVals) |-> <<"CvtToFuzzyMeanToMid", << <<"IgnoreZeros", IF g = 2 THEN "True" ELSE "False">>, <<"FuzzyValues", MidVals[i]>> >> >>]
          ELSE <<>>])

ErrEntries(k) ==
    << <<"Sum", <<>>>>, <<"Multiply", <<>>>>, <<"Minimum", <<>>>>, <<"Maximum", <<>>>>, <<"Mean", <<>>>>,
       <<"WeightedSum", W(Ones(k))>>, <<"WeightedMean", W(Ones(k))>>,
       <<"FuzzyOr", <<>>>>, <<"FuzzyAnd", <<>>>>, <<"FuzzyUnion", <<>>>>, <<"FuzzyXOr", <<>>>>, <<"FuzzyWeightedUnion", W(Ones(k))>>,
       <<"FuzzySelectedUnion", << <<"TruestOrFalsest", "Truest">>, <<"NumberToConsider", R(IF k = 0 THEN 0 ELSE 1)>> >> >> >>
    \o (IF k = 2 THEN << <<"AMinusB", <<>>>>, <<"ADividedByB", <<>>>> >> ELSE <<>>)

Entries(x) == CASE Family = "fz" -> FzEntries(Len(x))
                [] Family = "arerr" -> ErrEntries(Len(x))
                [] Family = "ar" -> ArEntries(Len(x))
                [] Family = "cvc" -> CvcEntries
                [] Family = "ff" -> FfEntries
                [] Family = "cva" -> CvaEntries(x[1])

Eval(x) == LET E == Entries(x) IN [e \in 1..Len(E) |-> <<E[e][1], E[e][2], Sem(E[e][1], E[e][2], x)>>]

Init == ins \in InsSet /\ out = <<>> /\ done = FALSE
Apply == ~done /\ out' = Eval(ins) /\ done' = TRUE /\ UNCHANGED ins
Next == Apply
Spec == Init /\ [][Next]_vars

\* =========================================================================
\* Laws (checked in every state after Apply)
\* =========================================================================
n == Len(ins)
Perms(k) == {f \in [1..k -> 1..k] : \A i, j \in 1..k : f[i] = f[j] => i = j}
PermSeq(s, pi) == [i \in 1..Len(s) |-> s[pi[i]]]
Unweighted == {"FuzzyOr", "FuzzyAnd", "FuzzyUnion", "FuzzyXOr", "FuzzySelectedUnion", "Sum", "Multiply", "Minimum", "Maximum", "Mean"}
WeightedCmds == {"FuzzyWeightedUnion", "WeightedSum", "WeightedMean"}
Commutes(cmd) == cmd \in Unweighted \cup WeightedCmds

\* C03: a result cell is missing iff an input cell there is missing or the operation is undefined there
Undefined(cmd, p, j) ==
    \/ cmd = "ADividedByB" /\ ~IsMV(Cells(ins[2])[j]) /\ Cells(ins[2])[j][1] = 0
    \/ cmd \in {"WeightedMean", "FuzzyWeightedUnion"} /\ SumSeq(P(p, "Weights")) = R(0)
    \/ cmd = "Normalize" /\ NDistinct(Valid(Cells(ins[1]))) < 2            \* constant data: nothing to spread (0/0)
MaskRule == done => \A e \in 1..Len(out) :
               IsOk(out[e][3]) => \A j \in 1..Len(out[e][3][2]) :
                   IsMV(out[e][3][2][j]) <=> (MissingIn(ins, j) \/ Undefined(out[e][1], out[e][2], j))
\* C04
FuzzyInRange == done => \A e \in 1..Len(out) : out[e][1] \in FuzzyCmds => InRange(out[e][3])
\* C06 / C07: reordering the inputs (jointly with the weights) changes neither the value nor success/failure
OrderInvariant == done => \A e \in 1..Len(out) : Commutes(out[e][1]) =>
    \A pi \in Perms(n) :
        LET p == out[e][2]
            pp == IF out[e][1] \in WeightedCmds /\ Len(P(p, "Weights")) = n THEN W(PermSeq(P(p, "Weights"), pi)) ELSE p
        IN Sem(out[e][1], pp, PermSeq(ins, pi)) = out[e][3]
\* C05: permuting the cells of all inputs permutes the result identically (data-dependent commands included)
Equivariant == done => \A e \in 1..Len(out) : IsOk(out[e][3]) =>
    \A pi \in Perms(Len(Cells(ins[1]))) :      \* (the arrays of a case have one length; the extra z-score arrays are longer than LenA)
        Sem(out[e][1], out[e][2], [i \in 1..n |-> PermuteCells(ins[i], pi)]) = Ok(PermSeq(out[e][3][2], pi))

\* C06: algebra of the fuzzy operators at this point
X1 == Col(ins, 1)
FuzzyAlgebra == (done /\ Family = "fz" /\ LenA = 1 /\ ~Wide) =>
    LET x == X1
        nx == MapSeq(NotC, x) IN
    /\ \A i \in 1..n : NotC(NotC(x[i])) = x[i]                                         \* involution
    /\ NotC(OrC(x)) = AndC(nx) /\ NotC(AndC(x)) = OrC(nx)                              \* De Morgan
    /\ NotC(UnionC(x)) = UnionC(nx)
    /\ (~AnyMV(x) => RLe(AndC(x), UnionC(x)) /\ RLe(UnionC(x), OrC(x)))                \* And <= Union <= Or
    /\ SelC(x, "Truest", 1) = OrC(x) /\ SelC(x, "Falsest", 1) = AndC(x)
    /\ SelC(x, "Truest", n) = UnionC(x) /\ SelC(x, "Falsest", n) = UnionC(x)
    /\ \A k \in 1..n : ~AnyMV(x) => RLe(SelC(x, "Falsest", k), SelC(x, "Truest", k))
    /\ WUnionC(x, Ones(n)) = UnionC(x) /\ WUnionC(x, [i \in 1..n |-> R(3)]) = UnionC(x)
    /\ (n >= 2 /\ ~AnyMV(x) => RLe(XOrC(x), OrC(x)) /\ RLe(R(-1), XOrC(x)))
    /\ (n = 2 /\ ~AnyMV(x) /\ x[1] = x[2] /\ x[1] # R(-1) => XOrC(x) = R(-1) \/ RLe(XOrC(x), x[1]))
\* C07: algebra of the arithmetic commands at this point
ArithAlgebra == (done /\ Family = "ar" /\ LenA = 1) =>
    LET x == X1 IN
    /\ MeanC(x) = RDiv(SumC(x), R(n))
    /\ WSumC(x, Ones(n)) = SumC(x) /\ WMeanC(x, Ones(n)) = MeanC(x) /\ WMeanC(x, [i \in 1..n |-> R(2)]) = MeanC(x)
    /\ (~AnyMV(x) => RLe(MinC(x), MeanC(x)) /\ RLe(MeanC(x), MaxC(x)))
    /\ (n = 2 => RSub(x[1], x[1]) \in {R(0), MV} /\ RSub(x[1], x[2]) = RNeg(RSub(x[2], x[1])))
    /\ (n = 2 /\ ~AnyMV(x) /\ x[2][1] # 0 => RMul(RDiv(x[1], x[2]), x[2]) = x[1])
    /\ (n = 2 /\ ~AnyMV(x) /\ x[2][1] = 0 => RDiv(x[1], x[2]) = MV)
\* C08: the conversion mappings
Between(c, a, b) == (RLe(a, c) /\ RLe(c, b)) \/ (RLe(b, c) /\ RLe(c, a))
ConvAlgebra == (done /\ Family \in {"cvc", "ff"} /\ LenA = 1) =>
    LET c == Cells(ins[1])[1] IN
    /\ \A i \in 1..Len(Thresholds) :
          LET t == Thresholds[i][1] f == Thresholds[i][2] IN
          t # f =>
            /\ ToFuzzyC(t, t, f) = R(1) /\ ToFuzzyC(f, t, f) = R(-1)                       \* thresholds -> +1 / -1
            /\ FromFuzzyC(R(1), t, f) = t /\ FromFuzzyC(R(-1), t, f) = f
            /\ (~IsMV(c) /\ Between(c, t, f) => FromFuzzyC(ToFuzzyC(c, t, f), t, f) = c)   \* inverse between the thresholds
            /\ (~IsMV(c) /\ Between(c, R(-1), R(1)) => ToFuzzyC(FromFuzzyC(c, t, f), t, f) = c)
            /\ (~IsMV(c) => \A d \in RawF : RLe(c, d) =>                                   \* monotone (direction by threshold order)
                   IF RLt(f, t) THEN RLe(ToFuzzyC(c, t, f), ToFuzzyC(d, t, f)) ELSE RLe(ToFuzzyC(d, t, f), ToFuzzyC(c, t, f)))
    /\ \A e \in 1..Len(out) :                                                              \* fuzzy variant = clamp of the Normalize variant
          LET cmd == out[e][1] p == out[e][2] IN
          /\ cmd = "CvtToFuzzyCurve" =>
                LET r == Sem("NormalizeCurve", << <<"RawValues", P(p, "RawValues")>>, <<"NormalValues", P(p, "FuzzyValues")>> >>, ins) IN
                out[e][3] = IF IsOk(r) THEN Ok(MapSeq(Fz, r[2])) ELSE r
          /\ cmd = "CvtToFuzzyCat" =>
                LET r == Sem("NormalizeCat", << <<"RawValues", P(p, "RawValues")>>, <<"NormalValues", P(p, "FuzzyValues")>>,
                                                <<"DefaultNormalValue", P(p, "DefaultFuzzyValue")>> >>, ins) IN
                out[e][3] = IF IsOk(r) THEN Ok(MapSeq(Fz, r[2])) ELSE r
          /\ (cmd = "NormalizeCurve" /\ IsOk(out[e][3])) =>                                 \* control points map to their values; order irrelevant
                LET raws == P(p, "RawValues") vals == P(p, "NormalValues") pts == Pairs(raws, vals) IN
                /\ \A i \in 1..Len(raws) : CurveC(raws[i], pts) = vals[i]
                /\ \A pi \in Perms(Len(raws)) : Pairs(PermSeq(raws, pi), PermSeq(vals, pi)) = pts
                /\ (~IsMV(c) /\ (\A i \in 1..(Len(pts) - 1) : RLe(pts[i][2], pts[i + 1][2])) =>      \* monotone curve preserves order
                       \A d \in RawF : RLe(c, d) => RLe(CurveC(c, pts), CurveC(d, pts)))
ConvArrayAlgebra == (done /\ Family = "cva") =>
    LET a == ins[1] cs == Cells(a) v == Valid(cs) IN
    \A e \in 1..Len(out) :
       LET cmd == out[e][1] p == out[e][2] r == out[e][3] IN
       /\ (cmd = "Normalize" /\ IsOk(r) /\ TwoDistinct(a)) =>                              \* min -> StartVal, max -> EndVal (constant data has no range)
             \A j \in 1..Len(cs) : ~IsMV(cs[j]) =>
                 /\ (cs[j] = MinSeq(v) => r[2][j] = PD(p, "StartVal", R(0)))
                 /\ (cs[j] = MaxSeq(v) => r[2][j] = PD(p, "EndVal", R(1)))
       /\ (cmd = "CvtToFuzzy" /\ IsOk(r) /\ ~Has(p, "TrueThreshold") /\ ~Has(p, "FalseThreshold")) =>   \* defaults by direction
             \A j \in 1..Len(cs) : ~IsMV(cs[j]) =>
                 /\ (cs[j] = MinSeq(v) => r[2][j] = IF PD(p, "Direction", "LowToHigh") = "HighToLow" THEN R(1) ELSE R(-1))
                 /\ (cs[j] = MaxSeq(v) => r[2][j] = IF PD(p, "Direction", "LowToHigh") = "HighToLow" THEN R(-1) ELSE R(1))
       /\ (cmd \in {"Normalize", "CvtToFuzzy"} /\ IsOk(r) /\ TwoDistinct(a)) =>               \* monotone mappings preserve (or reverse) order
             \A i, j \in 1..Len(cs) : (~IsMV(cs[i]) /\ ~IsMV(cs[j]) /\ RLe(cs[i], cs[j])) =>
                 (RLe(r[2][i], r[2][j]) \/ RLe(r[2][j], r[2][i]))
       /\ (cmd = "CvtToFuzzyZScore" /\ Has(p, "TrueThresholdZScore")) =>                    \* fuzzy variant = Normalize variant on [-1, 1]
             r = Sem("NormalizeZScore", p \o << <<"StartVal", R(-1)>>, <<"EndVal", R(1)>> >>, ins)
       /\ cmd = "CvtToFuzzyCurveZScore" =>
             LET q == Sem("NormalizeCurveZScore", << <<"ZScoreValues", P(p, "ZScoreValues")>>, <<"NormalValues", P(p, "FuzzyValues")>> >>, ins) IN
             r = IF IsOk(q) THEN Ok(MapSeq(Fz, q[2])) ELSE q
       /\ cmd = "CvtToFuzzyMeanToMid" =>
             LET q == Sem("NormalizeMeanToMid", << <<"IgnoreZeros", P(p, "IgnoreZeros")>>, <<"NormalValues", P(p, "FuzzyValues")>> >>, ins) IN
             r = IF IsOk(q) THEN Ok(MapSeq(Fz, q[2])) ELSE q
       /\ (cmd = "NormalizeMeanToMid" /\ IsOk(r)) =>                                        \* extremes map to the outer values
             \A j \in 1..Len(cs) : ~IsMV(cs[j]) =>
                 /\ (cs[j] = MinSeq(v) => r[2][j] = P(p, "NormalValues")[1])
                 /\ (cs[j] = MaxSeq(v) => r[2][j] = P(p, "NormalValues")[5])
=============================================================================
