------------------------------ MODULE NetcdfIOTrace ------------------------------
(* record == [id, mode, grids, mv, dt, obs, dimsok, again]: obs[i] is what the real EEMSRead returned for grid i (mode "read": the grid as stored in a   *)
(* file made with netCDF4; mode "write": after the real EEMSWrite wrote all grids together): <<"ok", kind, shape, cells>> | <<"err", class, is MPilot error>>; *)
(* dimsok: the written dataset's dimension variables and coordinate values equal the template's.                                          *)
EXTENDS NetcdfIO, Json, IOUtils
Traces == ndJsonDeserialize(IOEnv.TRACE_FILE)
VARIABLES tid, verdict
T == Traces[tid]
JudgeOne(exp, o, shape) ==
    IF exp[1] = "err" THEN (IF o[1] = "ok" THEN "C18.CheckSkipped" ELSE IF ~o[3] THEN "C13.EscapedClass" ELSE IF o[2] # exp[2] THEN "C18.Option" ELSE "ok")
    ELSE IF o[1] = "err" THEN "C18.Option"
    ELSE IF o[3] # shape \/ Len(o[4]) # Len(exp[3]) THEN "C18.Shape"
    ELSE IF \E k \in 1..Len(exp[3]) : IsMV(exp[3][k]) # IsMV(o[4][k]) THEN "C18.Mask"
    ELSE IF o[2] # exp[2] THEN "C18.Kind"
    ELSE IF o[4] # exp[3] THEN "C18.Value" ELSE "ok"
Judge(t) ==
    IF t.mode = "read" THEN
         LET first == JudgeOne(Read(t.grids[1], t.mv, t.dt), t.obs[1], Shape(t.grids[1])) IN
         IF first # "ok" THEN first
         \* a second, plain read of the same variable in the same process is not influenced by the first one
         ELSE IF t.again # <<>> /\ JudgeOne(Read(t.grids[1], <<>>, ""), t.again, Shape(t.grids[1])) # "ok" THEN "C18.ReadAgain" ELSE "ok"
    ELSE IF ~t.dimsok THEN "C18.Dims"
    ELSE LET vs == [i \in 1..Len(t.grids) |-> JudgeOne(Read(Written(t.grids, i), <<>>, IF Kind(t.grids[i]) = "i" THEN "Integer" ELSE ""), t.obs[i], Shape(t.grids[i]))]
             \* the first result written again, alone, after the joint write: the file holds exactly that result
             ag == IF t.again = <<>> THEN "ok"
                   ELSE JudgeOne(Read(Written(<<t.grids[1]>>, 1), <<>>, IF Kind(t.grids[1]) = "i" THEN "Integer" ELSE ""), t.again, Shape(t.grids[1])) IN
         IF \E i \in 1..Len(vs) : vs[i] # "ok" THEN vs[CHOOSE i \in 1..Len(vs) : vs[i] # "ok"]
         ELSE IF ag # "ok" THEN "C18.WriteAgain" ELSE "ok"
TInit == tid \in 1..Len(Traces) /\ verdict = "pending" /\ grids = <<>> /\ mv = <<>> /\ dt = "" /\ out = <<>> /\ done = TRUE
TNext == verdict = "pending" /\ verdict' = Judge(T) /\ UNCHANGED <<tid, grids, mv, dt, out, done>>
TReport == verdict # "pending" => PrintT(<<"VERDICT", T.id, verdict>>)
=============================================================================
