---------------------------- MODULE EEMSOpsTrace ----------------------------
(***************************************************************************)
(* Validation of recorded library executions against EEMSOps.              *)
(* A record is  [id, ins, obs]  where ins are the input arrays (exactly as *)
(* EEMSCases produced them) and obs is a sequence of                       *)
(*   <<command, params, <<"ok", cells>> | <<ErrorClass, <<>>>> >>          *)
(* observed on the real code (cells snapped to rationals; <<k, -1>> marks  *)
(* a value that is not a small rational, <<0, -2>> a NaN/infinity).        *)
(* One step consumes one observation; `bad` collects the violated clauses. *)
(***************************************************************************)
EXTENDS EEMSOps, Json, IOUtils

Traces == ndJsonDeserialize(IOEnv.TRACE_FILE)

VARIABLES tid, l, bad
vars == <<tid, l, bad>>
T == Traces[tid]

CellClause(cmd, exp, got) ==
    IF IsMV(exp) /\ IsMV(got) THEN "ok"
    ELSE IF IsMV(exp) # IsMV(got) THEN "Mask"
    ELSE IF cmd \in FuzzyCmds /\ got[2] > 0 /\ (RLt(got, R(-1)) \/ RLt(R(1), got)) THEN "OutOfRange"
    ELSE IF exp # got THEN "Value" ELSE "ok"

Clause(cmd, exp, got) ==
    IF IsOk(exp) /\ ~IsOk(got) THEN "UnexpectedError"
    ELSE IF ~IsOk(exp) /\ exp # got THEN "ErrorClass"
    ELSE IF ~IsOk(exp) THEN "ok"
    ELSE IF Len(exp[2]) # Len(got[2]) THEN "Shape"
    ELSE LET cs == {CellClause(cmd, exp[2][j], got[2][j]) : j \in 1..Len(exp[2])} IN
         IF "Mask" \in cs THEN "Mask" ELSE IF "OutOfRange" \in cs THEN "OutOfRange"
         ELSE IF "Value" \in cs THEN "Value" ELSE "ok"

Init == tid \in 1..Len(Traces) /\ l = 1 /\ bad = <<>>
Step == /\ l <= Len(T.obs) /\ l' = l + 1 /\ UNCHANGED tid
        /\ LET o == T.obs[l]
               c == Clause(o[1], Sem(o[1], o[2], T.ins), o[3]) IN
           bad' = IF c = "ok" THEN bad ELSE Append(bad, <<c, o[1], l>>)
Next == Step
Report == (l = Len(T.obs) + 1) => PrintT(<<"VERDICT", T.id, bad>>)
=============================================================================
