------------------------------ MODULE CsvIOTrace ------------------------------
(***************************************************************************)
(* Validation of recorded CSV reads/writes against CsvIO.Read / Write.     *)
(* record == [id, file, field, missing, dtype, obs, wobs, kind]            *)
(*   obs   what the real reader returned for `file`: <<"ok", cells, kindok>>*)
(*         (cells <<id or "miss" or "?", masked>>, kindok: element type as *)
(*         requested) or <<"err", class, line, is MPilot error>>            *)
(*   wobs  <<>> or what came back after the real writer wrote the column   *)
(*         and its reverse under the names "x,y", "out 1" and the real reader read "x,y":  *)
(*         <<"ok", cells, header as written, names as listed, every row has one cell per listed name>> *)
(***************************************************************************)
EXTENDS CsvIO, Json, IOUtils
Traces == ndJsonDeserialize(IOEnv.TRACE_FILE)
VARIABLES tid, verdict
T == Traces[tid]
JudgeRead(t) ==
    LET exp == Read(t.file, t.field, t.missing, t.dtype) o == t.obs IN
    IF exp[1] = "err" THEN
        IF o[1] = "ok" THEN "C17.AcceptedBadFile"
        ELSE IF ~o[4] THEN "C13.EscapedClass"
        ELSE IF exp[2] = "Ragged" THEN "ok"
        ELSE IF o[2] # exp[2] THEN "C17.ErrorClass"
        ELSE IF exp[3] > 0 /\ o[3] # exp[3] THEN "C17.ErrorLine" ELSE "ok"
    ELSE IF o[1] = "err" THEN "C17.RejectedGoodFile"
    ELSE IF Len(o[2]) # Len(exp[2]) THEN "C17.Order"
    ELSE IF \E r \in 1..Len(exp[2]) : o[2][r][2] # exp[2][r][2] THEN "C17.Mask"
    ELSE IF \E r \in 1..Len(exp[2]) : ~exp[2][r][2] /\ o[2][r][1] # exp[2][r][1] THEN "C17.Order"
    ELSE IF ~o[3] THEN "C17.Type" ELSE "ok"
JudgeWrite(t) ==
    IF t.wobs = <<>> THEN "ok"
    ELSE LET exp == Read(t.file, t.field, t.missing, t.dtype) IN
         IF t.wobs[1] # "ok" THEN "C17.RoundTrip"
         ELSE IF t.wobs[3] # t.wobs[4] \/ ~t.wobs[5] THEN "C17.Header"      \* the header is the listed names in the listed order (a result may be listed twice), one cell per name in every row
         ELSE IF Len(t.wobs[2]) # Len(exp[2]) THEN "C17.RoundTrip"
         ELSE IF \E r \in 1..Len(exp[2]) : t.wobs[2][r] # <<exp[2][r][1], FALSE>> THEN "C17.RoundTrip" ELSE "ok"
Judge(t) == IF JudgeRead(t) # "ok" THEN JudgeRead(t) ELSE JudgeWrite(t)
TInit == /\ tid \in 1..Len(Traces) /\ verdict = "pending" /\ file = <<>> /\ field = "" /\ missing = FALSE /\ dtype = "" /\ out = <<>> /\ wfile = <<>>
         /\ back = <<>> /\ done = TRUE
TNext == verdict = "pending" /\ verdict' = Judge(T) /\ UNCHANGED <<tid, file, field, missing, dtype, out, wfile, back, done>>
TReport == verdict # "pending" => PrintT(<<"VERDICT", T.id, verdict>>)
=============================================================================
