--------------------------------- MODULE Rat ---------------------------------
(***************************************************************************)
(* Exact rational arithmetic for TLC (32-bit integers, no reals).          *)
(* A rational is <<n, d>> with d > 0 and gcd(|n|, d) = 1.                   *)
(* MV == <<0, 0>> is the MISSING cell; every operation propagates it, and  *)
(* division by zero yields it (numpy.ma's domain rule).                    *)
(***************************************************************************)
EXTENDS Integers, Sequences

MV == <<0, 0>>
IsMV(a) == a[2] = 0
Abs(n) == IF n < 0 THEN -n ELSE n
RECURSIVE GCD(_, _)
GCD(a, b) == IF b = 0 THEN a ELSE GCD(b, a % b)
Norm(n, d) == IF d = 0 THEN MV
              ELSE LET s == IF d < 0 THEN -1 ELSE 1
                       g == GCD(Abs(n), Abs(d))
                   IN IF n = 0 THEN <<0, 1>> ELSE <<(s * n) \div g, (s * d) \div g>>
R(n) == <<n, 1>>
Q(n, d) == Norm(n, d)

\* (denominators are brought to their least common multiple and factors are cancelled before multiplying, to stay within TLC's 32-bit integers)
RAdd(a, b) == IF IsMV(a) \/ IsMV(b) THEN MV
              ELSE LET g == GCD(a[2], b[2]) IN Norm(a[1] * (b[2] \div g) + b[1] * (a[2] \div g), (a[2] \div g) * b[2])
RNeg(a) == IF IsMV(a) THEN MV ELSE <<-a[1], a[2]>>
RSub(a, b) == RAdd(a, RNeg(b))
RMul(a, b) == IF IsMV(a) \/ IsMV(b) THEN MV
              ELSE IF a[1] = 0 \/ b[1] = 0 THEN <<0, 1>>
              ELSE LET g1 == GCD(Abs(a[1]), b[2]) g2 == GCD(Abs(b[1]), a[2]) IN
                   Norm((a[1] \div g1) * (b[1] \div g2), (a[2] \div g2) * (b[2] \div g1))
RDiv(a, b) == IF IsMV(a) \/ IsMV(b) \/ b[1] = 0 THEN MV ELSE RMul(a, IF b[1] < 0 THEN <<-b[2], -b[1]>> ELSE <<b[2], b[1]>>)
\* comparisons are only applied to non-missing values
RLt(a, b) == a[1] * b[2] < b[1] * a[2]
RLe(a, b) == a[1] * b[2] <= b[1] * a[2]
REq(a, b) == a = b
RMin(a, b) == IF IsMV(a) \/ IsMV(b) THEN MV ELSE IF RLe(a, b) THEN a ELSE b
RMax(a, b) == IF IsMV(a) \/ IsMV(b) THEN MV ELSE IF RLe(a, b) THEN b ELSE a
RClamp(a, lo, hi) == IF IsMV(a) THEN MV ELSE IF RLt(a, lo) THEN lo ELSE IF RLt(hi, a) THEN hi ELSE a
IsInt(a) == a[2] = 1

\* exact square root of a non-negative rational, MV if irrational
RECURSIVE ISqrtFrom(_, _)
ISqrtFrom(n, k) == IF k * k = n THEN k ELSE IF k * k > n THEN -1 ELSE ISqrtFrom(n, k + 1)
ISqrt(n) == ISqrtFrom(n, 0)
RSqrt(a) == IF IsMV(a) \/ a[1] < 0 THEN MV
            ELSE LET p == ISqrt(a[1]) q == ISqrt(a[2]) IN IF p < 0 \/ q < 0 THEN MV ELSE Norm(p, q)

\* ---------- sequences of rationals
RECURSIVE SumSeq(_), MinSeq(_), MaxSeq(_), ProdSeq(_)
SumSeq(s) == IF s = <<>> THEN R(0) ELSE RAdd(Head(s), SumSeq(Tail(s)))
ProdSeq(s) == IF s = <<>> THEN R(1) ELSE RMul(Head(s), ProdSeq(Tail(s)))
MinSeq(s) == IF Len(s) = 1 THEN s[1] ELSE RMin(Head(s), MinSeq(Tail(s)))
MaxSeq(s) == IF Len(s) = 1 THEN s[1] ELSE RMax(Head(s), MaxSeq(Tail(s)))
AnyMV(s) == \E i \in 1..Len(s) : IsMV(s[i])
Valid(s) == SelectSeq(s, LAMBDA c : ~IsMV(c))
RECURSIVE Insert(_, _)
Insert(x, s) == IF s = <<>> THEN <<x>> ELSE IF RLe(x, Head(s)) THEN <<x>> \o s ELSE <<Head(s)>> \o Insert(x, Tail(s))
RECURSIVE SortAsc(_)
SortAsc(s) == IF s = <<>> THEN <<>> ELSE Insert(Head(s), SortAsc(Tail(s)))      \* non-missing elements only
MapSeq(f(_), s) == [i \in 1..Len(s) |-> f(s[i])]
Zip2(f(_, _), s, t) == [i \in 1..Len(s) |-> f(s[i], t[i])]
MeanSeq(s) == RDiv(SumSeq(s), R(Len(s)))
=============================================================================
