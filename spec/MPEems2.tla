------------------------------- MODULE MPEems2 -------------------------------
(***************************************************************************)
(* EEMS 2.0 command files (C16).  MC_Eems2.Table is GENERATED from the     *)
(* live name table mpilot.utils.EEMS_COMMANDS, MC_Decl.Decl from the live  *)
(* command classes.                                                        *)
(*  Convert   the rewriting of mpilot.utils.convert_eems2_commands:        *)
(*            renamed command, result name = given | NewFieldName |        *)
(*            InFieldName, NewFieldName / OutFileName arguments dropped,    *)
(*            applied to every command of a file that contains an EEMS 2.0 *)
(*            style command or an EEMS 2.0 command name                    *)
(*  property  TargetsExist; loading a 2.0 file = loading its image         *)
(***************************************************************************)
EXTENDS MPValidateDefs, MC_Eems2, SequencesExt

V2Names == {Table[k][1] : k \in 1..Len(Table)}
V2Target(n) == Table[CHOOSE k \in 1..Len(Table) : Table[k][1] = n][2]
MissingTargets == {n \in V2Names : V2Target(n) \notin DeclNames}
TargetsExist == MissingTargets = {}
\* what each EEMS 2.0 command MEANS (EEMS 2.0 manual: ORNEG is the falsest = minimum of its inputs, i.e. a fuzzy And; DIF is A - B; ...): the name table
\* may be refactored, but a documented name must keep denoting the MPilot command with that meaning, or the translated model computes something else
Meaning == << <<"READ", "EEMSRead">>, <<"CVTTOFUZZY", "CvtToFuzzy">>, <<"CVTTOFUZZYCURVE", "CvtToFuzzyCurve">>, <<"CVTTOFUZZYCAT", "CvtToFuzzyCat">>,
              <<"MEANTOMID", "CvtToFuzzyMeanToMid">>, <<"COPYFIELD", "Copy">>, <<"NOT", "FuzzyNot">>, <<"OR", "FuzzyOr">>, <<"AND", "FuzzyAnd">>,
              <<"ORNEG", "FuzzyAnd">>, <<"XOR", "FuzzyXOr">>, <<"SUM", "Sum">>, <<"MULT", "Multiply">>, <<"DIVIDE", "ADividedByB">>, <<"MIN", "Minimum">>,
              <<"MAX", "Maximum">>, <<"MEAN", "Mean">>, <<"UNION", "FuzzyUnion">>, <<"DIF", "AMinusB">>, <<"SELECTEDUNION", "FuzzySelectedUnion">>,
              <<"WTDUNION", "FuzzyWeightedUnion">>, <<"WTDMEAN", "WeightedMean">>, <<"WTDSUM", "WeightedSum">>,
              <<"SCORERANGEBENEFIT", "ScoreRangeBenefit">>, <<"SCORERANGECOST", "ScoreRangeCost">> >>
MeaningChanged == {Meaning[k][1] : k \in {k \in 1..Len(Meaning) : Meaning[k][1] \notin V2Names \/ V2Target(Meaning[k][1]) # Meaning[k][2]}}

ArgVal(c, pn) == Args(c)[CHOOSE k \in 1..Len(Args(c)) : Args(c)[k][1] = pn][2]
NameOf(v) == IF v[1] = "ref" THEN v[2] ELSE IF v[1] = "str" THEN (IF v[2] = "colb" THEN "b" ELSE "a") ELSE ""   \* the text of a field-name value (fixture columns a, b)
IsV2File(prog) == \E i \in 1..Len(prog) : Res(prog[i]) = "" \/ CName(prog[i]) \in V2Names
ConvertCmd(c) ==
    << (IF Res(c) # "" THEN Res(c)
        ELSE IF "NewFieldName" \in ArgNames(c) THEN NameOf(ArgVal(c, "NewFieldName"))
        ELSE IF "InFieldName" \in ArgNames(c) THEN NameOf(ArgVal(c, "InFieldName")) ELSE ""),
       (IF CName(c) \in V2Names THEN V2Target(CName(c)) ELSE CName(c)),
       SelectSeq(Args(c), LAMBDA a : a[1] \notin {"NewFieldName", "OutFileName"}) >>
Convert(prog) == IF IsV2File(prog) THEN [i \in 1..Len(prog) |-> ConvertCmd(prog[i])] ELSE prog

\* ---------- the EEMS 2.0 files explored: one command per mapped name, around the usual fixture
Fix2 == << Cmd("R", "EEMSRead", FALSE), Cmd("R2", "EEMSRead", FALSE),
           <<"F", "CvtToFuzzy", << <<"InFieldName", <<"ref", "R">>>> >> >>, <<"F2", "CvtToFuzzy", << <<"InFieldName", <<"ref", "R2">>>> >> >> >>
\* (nffirst: NewFieldName written before the other arguments - the result name does not depend on the order in which arguments are written;
\*  allargs: the optional arguments are given too; mpname: the result-less command carries the MPILOT name of the command, which makes the
\*  file an EEMS 2.0 style file all the same)
V2Cmd(n, newfield, outfile, named, nffirst, allargs, mpname) ==
    LET d == D(V2Target(n)) nf == << <<"NewFieldName", <<"ref", "NF">>>> >> IN
    << (IF named THEN "T" ELSE ""), (IF mpname THEN V2Target(n) ELSE n),
       (IF newfield /\ nffirst THEN nf ELSE <<>>)
       \o SelectSeq(ArgsFor(d, allargs), LAMBDA a : a[1] \notin {"NewFieldName", "OutFileName", "Metadata"})
       \o (IF newfield /\ ~nffirst THEN nf ELSE <<>>)
       \o (IF outfile THEN << <<"OutFileName", <<"str", "rel_missing">>>> >> ELSE <<>>) >>
\* a second legacy command without any NewFieldName, after the one under test: its result name must be its own InFieldName
PlainRead == <<"", "READ", << <<"InFileName", <<"str", "rel_exists">>>>, <<"InFieldName", <<"str", "colb">>>> >> >>
VARIABLES v2, image, done
vars == <<v2, image, done>>
Init == /\ \E n \in V2Names \ MissingTargets, nf \in BOOLEAN, of \in BOOLEAN, named \in BOOLEAN, pos \in {"first", "last"}, second \in BOOLEAN, nffirst \in BOOLEAN,
              allargs \in BOOLEAN, mpname \in BOOLEAN :
              LET tail == IF second THEN <<PlainRead>> ELSE <<>> IN
              /\ (nffirst => nf) /\ (mpname => ~named /\ ~allargs) /\ (allargs => ~nffirst /\ ~second)
              /\ v2 = IF pos = "first" THEN <<V2Cmd(n, nf, of, named, nffirst, allargs, mpname)>> \o tail \o Fix2
                      ELSE Fix2 \o <<V2Cmd(n, nf, of, named, nffirst, allargs, mpname)>> \o tail
        /\ image = <<>> /\ done = FALSE
Apply == ~done /\ done' = TRUE /\ image' = Convert(v2) /\ UNCHANGED v2
Next == Apply
\* evaluated once (INIT InitMissing): tells the harness which names have no target
InitMissing == v2 = <<>> /\ image = <<>> /\ done = TRUE /\ PrintT(<<"MISSING", SetToSeq(MissingTargets)>>) /\ PrintT(<<"CHANGED", SetToSeq(MeaningChanged)>>)
\* the image is an MPilot-style program over existing commands, with no output-file arguments left
ImageIsV3 == done => \A i \in 1..Len(image) : CName(image[i]) \in DeclNames /\ ~(\E k \in 1..Len(Args(image[i])) : Args(image[i])[k][1] \in {"NewFieldName", "OutFileName"})
\* converting an image changes nothing
ConvertIdempotent == done => Convert(image) = image \/ \E i \in 1..Len(image) : Res(image[i]) = ""
\* the rewriting keeps the order and number of commands and of the remaining arguments
ShapeKept == done => Len(image) = Len(v2) /\ \A i \in 1..Len(v2) : \A k \in 1..Len(Args(image[i])) : \E m \in 1..Len(Args(v2[i])) : Args(v2[i])[m] = Args(image[i])[k]
=============================================================================
