------------------------------- MODULE MPParams -------------------------------
(***************************************************************************)
(* Case machine over the decision table MPParamsTable.Clean: Init chooses  *)
(* a (parameter configuration, raw value kind, environment) cell, Apply    *)
(* evaluates it; the invariants are the laws of C20.                       *)
(***************************************************************************)
EXTENDS MPParamsTable

\* ---------- the case machine
CONSTANTS Deep      \* TRUE: list items from the full scalar set, nested lists of lists
Scalars == {<<"int", "bit">>, <<"int", "other">>, <<"float">>, <<"bool">>, <<"cmd">>, <<"type">>, <<"array">>,
            <<"dict", "strs">>, <<"dict", "mixed">>, <<"dict", "empty">>}
           \cup {<<"str", f>> : f \in StrForms}
ItemSet == IF Deep THEN Scalars ELSE {<<"int", "other">>, <<"float">>, <<"str", "intstr">>, <<"str", "word">>, <<"str", "resname_ok">>,
                                      <<"str", "resname_dangling">>, <<"cmd">>, <<"bool">>, <<"str", "rel_exists">>}
Lists == {<<"list", <<>>>>} \cup {<<"list", <<a>>>> : a \in ItemSet} \cup {<<"list", <<a, b>>>> : a \in ItemSet, b \in ItemSet}
         \cup {<<"pytuple", <<a, b>>>> : a \in {<<"int", "other">>, <<"str", "resname_ok">>}, b \in {<<"float">>, <<"cmd">>}}
         \cup {<<"list", <<<<"list", <<a>>>>, <<"list", <<b, a>>>>>>>> : a \in {<<"int", "other">>, <<"str", "resname_ok">>, <<"str", "word">>}, b \in {<<"float">>, <<"cmd">>}}
RawKinds == Scalars \cup Lists
Wants == {"any", "data", "number", "string", "bool"}
Fzs == {"any", "fuzzy", "nonfuzzy"}
ScalarCfgs == {<<"String">>, <<"Number">>, <<"Boolean">>, <<"Path", "must">>, <<"Path", "may">>, <<"Tuple">>, <<"Data">>, <<"DataType">>}
              \cup {<<"Result", w, f>> : w \in Wants, f \in Fzs}
Cfgs == ScalarCfgs \cup {<<"List", c>> : c \in {<<"Number">>, <<"String">>, <<"Boolean">>, <<"Path", "may">>, <<"Result", "any", "any">>,
                                                <<"Result", "data", "nonfuzzy">>, <<"Result", "data", "fuzzy">>,
                                                <<"List", <<"Result", "any", "any">>>>, <<"List", <<"Number">>>>}}
Prods == {<<s, o, f>> : s \in {"finished", "new"}, o \in {"data", "number", "string", "bool", "none"}, f \in {"fuzzy", "plain"}}
Envs == {<<w, pr>> : w \in {"none", "abs", "rel", "empty"}, pr \in Prods}
\* the environment only matters for paths (wd) and results (producer): avoid enumerating irrelevant combinations
RECURSIVE Mentions(_, _)
Mentions(v, tag) == v[1] = tag \/ (v[1] \in {"list", "pytuple"} /\ \E i \in 1..Len(v[2]) : Mentions(v[2][i], tag))
Base(p) == IF p[1] = "List" THEN (IF p[2][1] = "List" THEN p[2][2][1] ELSE p[2][1]) ELSE p[1]
Relevant(p, v, env) ==
    /\ (Base(p) # "Path" => env[1] = "none")
    /\ (Base(p) # "Result" => env[2] = <<"new", "data", "plain">>)
    /\ (env[2][3] = "fuzzy" => env[2][2] = "data")
    /\ (Mentions(v, "array") => Base(p) = "Data")      \* arrays are not raw values the parser or API delivers to other parameters

VARIABLES p, v, env, res, done
vars == <<p, v, env, res, done>>
Init == /\ p \in Cfgs /\ v \in RawKinds /\ env \in Envs /\ Relevant(p, v, env)
        /\ res = Unspec /\ done = FALSE
Apply == ~done /\ done' = TRUE /\ res' = Clean(p, v, env) /\ UNCHANGED <<p, v, env>>
Next == Apply
Spec == Init /\ [][Next]_vars

\* ---------- laws (C20)
\* cleaning an already-cleaned value returns it unchanged
Idempotent == (done /\ res[1] = "ok" /\ IdemApplies(p, env)) => Clean(p, res[2], env) = res
\* the only errors are parameter errors
ErrIsParameterError == (done /\ res[1] = "err") => \A i \in 1..Len(res[2]) : res[2][i] \in ParameterErrors
\* integers stay integers and decimals decimals; numeric strings become numbers of the right kind
Typed == done =>
    /\ (p = <<"Number">> /\ v[1] \in {"int", "float"} => res = Ok(v))
    /\ (p = <<"Number">> /\ v = <<"str", "intstr">> => res[2][1] = "int")
    /\ (p = <<"Number">> /\ v[1] = "str" /\ v[2] \in {"floatstr", "expstr"} => res[2] = <<"float">>)
    /\ (p = <<"Boolean">> /\ res[1] = "ok" => res[2] = <<"bool">>)
    /\ (p[1] = "Path" /\ res[1] = "ok" /\ env[1] # "empty" => res[2][1] = "str" /\ res[2][2] \in PathForms)
    /\ (p[1] = "Path" /\ res[1] = "ok" /\ env[1] = "empty" => res[2] = v)
    /\ (p[1] = "Path" /\ res[1] = "ok" /\ env[1] = "abs" => res[2][2] \in {"abs_exists", "abs_missing", "abs_joined", "abs_joined_missing"})
    /\ (p[1] = "Result" /\ res[1] = "ok" => res[2] = <<"cmd">>)
    /\ (p[1] = "DataType" /\ res[1] = "ok" => res[2] = <<"type">>)
    /\ (p[1] = "Tuple" /\ res[1] = "ok" => res[2][1] = "dict")
\* list items are cleaned item-wise, in order
ItemWise == (done /\ p[1] = "List" /\ v[1] \in {"list", "pytuple"} /\ res[1] = "ok") =>
    /\ Len(res[2][2]) = Len(v[2])
    /\ \A i \in 1..Len(v[2]) : Clean(p[2], v[2][i], env) = Ok(res[2][2][i])
=============================================================================
