----------------------------- MODULE MPParserObj -----------------------------
(***************************************************************************)
(* The Parser object as a state machine: the lexer's line counter and the  *)
(* "EEMS 2.0 seen" flag live in the object, so what a parse reports may    *)
(* depend on what the same object parsed before.  Design switches:         *)
(*   ResetWhen      "start": both are reset at the start of every parse()  *)
(*                  "end": after a successful parse (a failed parse leaves *)
(*                  them dirty) | "never" (pinned)                         *)
(*   CrLfIsOne      "\r\n" counts as one line break                        *)
(*   CmdLineFrom    a command's line is that of its first token ("result") *)
(*                  or of the command-name token ("name": pinned)          *)
(* A text is <<id, lead, crlf, v2, split, breaks, bad>>: line breaks before *)
(* the first command, CRLF line endings, contains an EEMS 2.0 style        *)
(* command, result name and command name on different lines, total line    *)
(* breaks (lexed before the error for a malformed text), malformed.        *)
(***************************************************************************)
EXTENDS Integers, Sequences, TLC
CONSTANTS ResetWhen, CrLfIsOne, CmdLineFrom, NParsers, MaxHist
Texts == { <<"t_plain", 0, FALSE, FALSE, FALSE, 1, FALSE>>, <<"t_lead", 3, FALSE, FALSE, FALSE, 6, FALSE>>, <<"t_crlf", 2, TRUE, FALSE, FALSE, 4, FALSE>>,
           <<"t_v2", 1, FALSE, TRUE, FALSE, 2, FALSE>>, <<"t_split", 1, FALSE, FALSE, TRUE, 2, FALSE>>,
           <<"t_bad", 2, FALSE, FALSE, FALSE, 4, TRUE>>, <<"t_badv2", 1, FALSE, TRUE, FALSE, 3, TRUE>>,
           \* a list mixing values and pairs (an error the parser remembers in the object) followed by an ordinary syntax error
           <<"t_mixbad", 0, FALSE, FALSE, FALSE, 0, TRUE>> }
VARIABLES ctr, flag, hist
vars == <<ctr, flag, hist>>
Init == ctr = [p \in 1..NParsers |-> 1] /\ flag = [p \in 1..NParsers |-> FALSE] /\ hist = <<>>
Counted(t, n) == IF t[3] /\ ~CrLfIsOne THEN 2 * n ELSE n
Parse(p, t) ==
    /\ Len(hist) < MaxHist
    /\ LET base == IF ResetWhen = "start" THEN 1 ELSE ctr[p]
           f0 == IF ResetWhen = "start" THEN FALSE ELSE flag[p]
           line == base + Counted(t, t[2]) + (IF CmdLineFrom = "name" /\ t[5] THEN Counted(t, 1) ELSE 0)
           ver == IF f0 \/ t[4] THEN 2 ELSE 3
           cleanEnd == ResetWhen = "end" /\ ~t[7]              \* the reset after the parse is skipped when the parse raises
       IN /\ ctr' = [ctr EXCEPT ![p] = IF cleanEnd THEN 1 ELSE base + Counted(t, t[6])]
          /\ flag' = [flag EXCEPT ![p] = IF cleanEnd THEN FALSE ELSE f0 \/ t[4]]
          /\ hist' = Append(hist, IF t[7] THEN <<p, t, -1, 0>> ELSE <<p, t, line, ver>>)
Next == \E p \in 1..NParsers, t \in Texts : Parse(p, t)
\* C11: the first command's reported line is its true line, whatever was parsed before
LinesTrue == \A k \in 1..Len(hist) : ~hist[k][2][7] => hist[k][3] = hist[k][2][2] + 1
\* C16: the reported version depends only on the text
VersionByText == \A k \in 1..Len(hist) : ~hist[k][2][7] => hist[k][4] = (IF hist[k][2][4] THEN 2 ELSE 3)
Report == Len(hist) = MaxHist => PrintT(<<"HIST", [k \in 1..Len(hist) |-> <<hist[k][1], hist[k][2][1]>>]>>)
=============================================================================
