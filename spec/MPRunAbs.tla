------------------------------ MODULE MPRunAbs ------------------------------
(***************************************************************************)
(* The run engine at the level of the property (C01/C02), without any      *)
(* schedule: a command is new, running or finished; it may begin when it   *)
(* is new, read the value of a FINISHED command it references while it is  *)
(* running, finish with the term built from what it read once it has read  *)
(* every reference it uses, or be aborted back to new.  Nothing else ever  *)
(* happens to a command; in particular a finished command stays finished   *)
(* with its value.  MPRun (the implementation-shaped specification) is     *)
(* checked to REFINE this specification (PROPERTY RefinesAbs).             *)
(***************************************************************************)
EXTENDS Integers, FiniteSets
CONSTANTS Cmds                 \* the commands
VARIABLES ast, aval,
          uses                 \* the program: for each command the set of references its execute reads (never changes)
avars == <<ast, aval, uses>>
Uses(c) == uses[c]
NoValA == <<>>
AInit == ast = [c \in Cmds |-> "new"] /\ aval = [c \in Cmds |-> NoValA] /\ uses \in [Cmds -> SUBSET Cmds]
Begin(c) == ast[c] = "new" /\ ast' = [ast EXCEPT ![c] = "running"] /\ UNCHANGED <<aval, uses>>
Finish(c) == /\ ast[c] = "running" /\ \A d \in Uses(c) : ast[d] = "finished"
             /\ ast' = [ast EXCEPT ![c] = "finished"]
             /\ aval' = [aval EXCEPT ![c] = <<c, [d \in Uses(c) |-> aval[d]]>>] /\ UNCHANGED uses
Abort(S) == /\ S # {} /\ \A c \in S : ast[c] = "running"
            /\ ast' = [c \in Cmds |-> IF c \in S THEN "new" ELSE ast[c]] /\ UNCHANGED <<aval, uses>>
ANext == (\E c \in Cmds : Begin(c) \/ Finish(c)) \/ (\E S \in SUBSET Cmds : Abort(S))
ASpec == AInit /\ [][ANext]_avars
\* what the abstract specification guarantees by construction
AFinishedForever == [][\A c \in Cmds : ast[c] = "finished" => ast'[c] = "finished" /\ aval'[c] = aval[c]]_avars
=============================================================================
