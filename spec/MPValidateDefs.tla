---------------------------- MODULE MPValidateDefs ----------------------------
(***************************************************************************)
(* Load / validate pipeline of mpilot (C12, C13, error half of C11).       *)
(*                                                                         *)
(* MC_Decl.Decl is GENERATED from the live command classes of the selected *)
(* libraries (code -> model): well-formedness is relative to what is       *)
(* declared.  A program is a sequence of <<result, command, args>>,        *)
(* args a sequence of <<parameter, raw value kind>> (MPParamsTable kinds   *)
(* plus <<"ref", result name>>).                                           *)
(*                                                                         *)
(*  Faults(prog)  declarative: the set of everything wrong with a program  *)
(*  pipeline      step by step in code order: Program.from_source          *)
(*                (exists / duplicate / missing / undeclared per command), *)
(*                Program.run pre-pass (clean every argument of every      *)
(*                command), then execution with its side effects           *)
(***************************************************************************)
EXTENDS MPParamsTable, MC_Decl

CONSTANT Pairs         \* TRUE: also every producer/consumer pairing (fuzzy vs non-fuzzy, every data-producing command)
CONSTANT AllKinds      \* FALSE: inject only values the parameter table rejects (C12); TRUE: every kind confusion (C13)

\* ---------- declarations
DeclNames == {Decl[k][1] : k \in 1..Len(Decl)}
D(cname) == Decl[CHOOSE k \in 1..Len(Decl) : Decl[k][1] = cname]
Params(d) == d[2]
PNames(d) == {Params(d)[k][1] : k \in 1..Len(Params(d))}
Cfg(d, pname) == Params(d)[CHOOSE k \in 1..Len(Params(d)) : Params(d)[k][1] = pname][2]
Required(d) == {Params(d)[k][1] : k \in {k \in 1..Len(Params(d)) : Params(d)[k][3]}}
OutKind(d) == d[3]
Fuzz(d) == d[4]
AllowExtra(d) == d[5]

\* ---------- programs
Res(c) == c[1]
CName(c) == c[2]
Args(c) == c[3]
ArgNames(c) == {Args(c)[k][1] : k \in 1..Len(Args(c))}
Results(prog) == {Res(prog[k]) : k \in 1..Len(prog)}
Producer(prog, name) == prog[CHOOSE k \in 1..Len(prog) : Res(prog[k]) = name]

\* validation of one argument value against a parameter configuration: <<"ok">> | <<"err", classes, offending result or "">>
DummyEnv == <<"abs", <<"new", "data", "plain">>>>
RECURSIVE ValidateVal(_, _, _)
ValidateVal(prog, cfg, v) ==
    IF cfg[1] = "Result" /\ v[1] = "ref" THEN
         IF v[2] \notin Results(prog) THEN <<"err", <<"ResultDoesNotExist">>, v[2]>>
         ELSE LET pc == Producer(prog, v[2]) IN
              IF CName(pc) \notin DeclNames THEN <<"ok">>        \* unknown producer: reported at load time
              ELSE LET r == Clean(cfg, <<"str", "resname_ok">>, <<"abs", <<"new", OutKind(D(CName(pc))), Fuzz(D(CName(pc)))>>>>) IN
                   IF r[1] = "err" THEN <<"err", r[2], v[2]>> ELSE <<"ok">>
    ELSE IF v[1] = "ref" THEN                                     \* a bare word that happens to be a result name
         LET r == Clean(cfg, <<"str", "word">>, DummyEnv) IN IF r[1] = "err" THEN <<"err", r[2], "">> ELSE <<"ok">>
    ELSE IF cfg[1] = "List" /\ v[1] = "list" THEN
         LET rs == [k \in 1..Len(v[2]) |-> ValidateVal(prog, cfg[2], v[2][k])] IN
         IF \E k \in 1..Len(rs) : rs[k][1] = "err"
         THEN rs[CHOOSE k \in 1..Len(rs) : rs[k][1] = "err" /\ \A m \in 1..(k - 1) : rs[m][1] # "err"] ELSE <<"ok">>
    ELSE LET r == Clean(cfg, v, DummyEnv) IN
         IF r[1] = "err" THEN <<"err", r[2], IF cfg[1] = "Result" /\ v[1] = "str" THEN "?" ELSE "">> ELSE <<"ok">>

\* ---------- Faults: <<acceptable error classes, command index, parameter name or "", offending name or "">>
CmdFaults(prog, i) ==
    LET c == prog[i] IN
    (IF CName(c) \notin DeclNames THEN {<<<<"CommandDoesNotExist">>, i, "", CName(c)>>} ELSE {})
    \cup (IF \E k \in 1..(i - 1) : Res(prog[k]) = Res(c) THEN {<<<<"DuplicateResult">>, i, "", Res(c)>>} ELSE {})
    \cup (IF CName(c) \in DeclNames THEN
            LET d == D(CName(c)) IN
            (IF Required(d) \ ArgNames(c) # {} THEN {<<<<"MissingParameters">>, i, "", CName(c)>>} ELSE {})
            \cup {<<<<"NoSuchParameter">>, i, Args(c)[k][1], Args(c)[k][1]>> : k \in {k \in 1..Len(Args(c)) : Args(c)[k][1] \notin PNames(d) /\ ~AllowExtra(d)}}
            \cup {<<ValidateVal(prog, Cfg(d, Args(c)[k][1]), Args(c)[k][2])[2], i, Args(c)[k][1], ValidateVal(prog, Cfg(d, Args(c)[k][1]), Args(c)[k][2])[3]>> :
                     k \in {k \in 1..Len(Args(c)) : Args(c)[k][1] \in PNames(d) /\ ValidateVal(prog, Cfg(d, Args(c)[k][1]), Args(c)[k][2])[1] = "err"}}
          ELSE {})
Faults(prog) == UNION {CmdFaults(prog, i) : i \in 1..Len(prog)}
WellFormed(prog) == Faults(prog) = {}
MPilotErrors == ParameterErrors \cup {"CommandDoesNotExist", "DuplicateResult", "MissingParameters", "NoSuchParameter",
                                      "RecursiveModelStructure", "UnexpectedError", "ProgramError", "MPilotError"}

\* ---------- builder: a valid model around every declared command, then one fault
ValidVal(cfg) ==
    CASE cfg[1] = "String" -> <<"str", "word">>
      [] cfg[1] = "Number" -> <<"int", "other">>
      [] cfg[1] = "Boolean" -> <<"str", "boolword">>
      [] cfg[1] = "Path" -> <<"str", IF cfg[2] = "must" THEN "rel_exists" ELSE "rel_missing">>
      [] cfg[1] = "Result" -> <<"ref", IF cfg[3] = "fuzzy" THEN "F" ELSE "R">>
      [] cfg[1] = "Tuple" -> <<"dict", "strs">>
      [] cfg[1] = "DataType" -> <<"str", "typename">>
      [] cfg[1] = "List" ->
            <<"list", <<(IF cfg[2][1] = "Result" THEN <<"ref", IF cfg[2][3] = "fuzzy" THEN "F" ELSE "R">> ELSE IF cfg[2][1] = "Number" THEN <<"int", "other">> ELSE <<"str", "word">>),
                        (IF cfg[2][1] = "Result" THEN <<"ref", IF cfg[2][3] = "fuzzy" THEN "F2" ELSE "R2">> ELSE IF cfg[2][1] = "Number" THEN <<"float">> ELSE <<"str", "word">>)>>>>
      [] OTHER -> <<"str", "word">>
ArgsFor(d, all) == LET ks == SelectSeq([k \in 1..Len(Params(d)) |-> k], LAMBDA k : Params(d)[k][3] \/ all) IN
                   [m \in 1..Len(ks) |-> <<Params(d)[ks[m]][1], ValidVal(Params(d)[ks[m]][2])>>]
Cmd(res, cname, all) == <<res, cname, ArgsFor(D(cname), all)>>
Fixture == << Cmd("R", "EEMSRead", FALSE), Cmd("R2", "EEMSRead", FALSE),
              <<"F", "CvtToFuzzy", << <<"InFieldName", <<"ref", "R">>>> >> >>, <<"F2", "CvtToFuzzy", << <<"InFieldName", <<"ref", "R2">>>> >> >>,
              <<"B", "PrintVars", << <<"InFieldNames", <<"list", <<<<"ref", "R">>>>>> >> >> >>,
              Cmd("W", "EEMSWrite", FALSE) >>

WrongCandidates == {<<"str", "word">>, <<"int", "other">>, <<"int", "bit">>, <<"str", "empty">>, <<"float">>, <<"list", <<<<"int", "other">>>>>>, <<"list", <<>>>>, <<"dict", "strs">>,
                    <<"str", "rel_missing">>, <<"str", "boolword">>, <<"list", <<<<"str", "word">>, <<"int", "other">>>>>>,
                    <<"list", <<<<"list", <<<<"int", "other">>>>>>>>>>}
\* C13 asks about every kind confusion, also those whose outcome the parameter table leaves unspecified
ConfusionCandidates == WrongCandidates \cup {<<"bool">>, <<"str", "intstr">>, <<"str", "floatstr">>, <<"str", "empty">>, <<"str", "typename">>,
                                             <<"list", <<<<"list", <<>>>>, <<"dict", "strs">>>>>>, <<"dict", "empty">>, <<"list", <<<<"float">>, <<"str", "boolword">>>>>>}
Wrong(cfg) == IF AllKinds THEN ConfusionCandidates ELSE {w \in WrongCandidates : Clean(cfg, w, DummyEnv)[1] = "err"}
IsRes(cfg) == cfg[1] = "Result" \/ (cfg[1] = "List" /\ cfg[2][1] = "Result")
ResCfg(cfg) == IF cfg[1] = "Result" THEN cfg ELSE cfg[2]
Wrap(cfg, v) == IF cfg[1] = "List" THEN <<"list", <<ValidVal(cfg)[2][1], v>>>> ELSE v
\* every producer / consumer pairing: the consumer's result parameter refers to a command PP of every data-producing kind
Pairings(d) == UNION {(IF IsRes(Params(d)[k][2]) THEN {<<"pair", Params(d)[k][1], c>> : c \in {c \in DeclNames : OutKind(D(c)) = "data"}} ELSE {}) : k \in 1..Len(Params(d))}
\* C14 over the real commands: a reference cycle closed through each result parameter of each command - the parameter of the command under test T refers to a
\* command U that refers back to T (U chosen so that every reference is well-typed), or, for an untyped result parameter, to T itself
CycleFaultsOf(d) ==
    UNION {(IF IsRes(Params(d)[k][2]) /\ (OutKind(d) = "data" \/ ResCfg(Params(d)[k][2])[2] = "any")
            THEN {<<"cycle", Params(d)[k][1], <<>>>>} \cup (IF ResCfg(Params(d)[k][2])[2] = "any" THEN {<<"selfloop", Params(d)[k][1], <<>>>>} ELSE {})
            ELSE {}) : k \in 1..Len(Params(d))}
FaultsOf(d) ==
    {<<"none", "", <<>>>>, <<"unknown", "", <<>>>>, <<"foreign", "", <<>>>>, <<"dup", "", <<>>>>, <<"undeclared", "", <<>>>>}
    \cup (IF Pairs THEN CycleFaultsOf(d) ELSE {})
    \cup {<<"missing", pn, <<>>>> : pn \in Required(d)}
    \cup (IF Pairs THEN Pairings(d) ELSE {})
    \cup UNION {{<<"wrong", Params(d)[k][1], w>> : w \in Wrong(Params(d)[k][2])} : k \in 1..Len(Params(d))}
    \cup UNION {(IF IsRes(Params(d)[k][2]) THEN
                    {<<"wrong", Params(d)[k][1], Wrap(Params(d)[k][2], <<"ref", "Ghost">>)>>}
                    \cup (IF ResCfg(Params(d)[k][2])[2] = "data" THEN {<<"wrong", Params(d)[k][1], Wrap(Params(d)[k][2], <<"ref", "B">>)>>} ELSE {})
                    \cup (IF ResCfg(Params(d)[k][2])[3] = "fuzzy" THEN {<<"wrong", Params(d)[k][1], Wrap(Params(d)[k][2], <<"ref", "R">>)>>} ELSE {})
                    \cup (IF ResCfg(Params(d)[k][2])[3] = "nonfuzzy" THEN {<<"wrong", Params(d)[k][1], Wrap(Params(d)[k][2], <<"ref", "F">>)>>} ELSE {})
                 ELSE {}) : k \in 1..Len(Params(d))}
SetArg(args, pn, v) == IF \E k \in 1..Len(args) : args[k][1] = pn
                       THEN [k \in 1..Len(args) |-> IF args[k][1] = pn THEN <<pn, v>> ELSE args[k]]
                       ELSE Append(args, <<pn, v>>)
Target(cname, all, f) ==
    LET d == D(cname) base == ArgsFor(d, all) IN
    CASE f[1] = "none" -> <<"T", cname, base>>
      [] f[1] = "unknown" -> <<"T", "NoSuchCommand", base>>
      [] f[1] = "foreign" -> <<"T", "Probe", base>>        \* a command of a library this program did not request (another program of the process did)
      [] f[1] = "dup" -> <<"R", cname, base>>
      [] f[1] = "undeclared" -> <<"T", cname, Append(base, <<"Bogus", <<"int", "other">>>>)>>
      [] f[1] = "missing" -> <<"T", cname, SelectSeq(base, LAMBDA a : a[1] # f[2])>>
      [] f[1] = "wrong" -> <<"T", cname, SetArg(base, f[2], f[3])>>
      [] f[1] = "pair" -> <<"T", cname, SetArg(base, f[2], Wrap(Cfg(d, f[2]), <<"ref", "PP">>))>>
      [] f[1] = "cycle" -> <<"T", cname, SetArg(base, f[2], Wrap(Cfg(d, f[2]), <<"ref", "U">>))>>
      [] f[1] = "selfloop" -> <<"T", cname, SetArg(base, f[2], Wrap(Cfg(d, f[2]), <<"ref", "T">>))>>
\* the command that closes the cycle: it consumes T and produces what T's parameter wants
BackEdge(cname, pn) ==
    LET d == D(cname) want == ResCfg(Cfg(d, pn)) IN
    IF want[2] = "any" THEN <<"U", "PrintVars", << <<"InFieldNames", <<"list", <<<<"ref", "T">>>>>> >> >> >>
    ELSE IF want[3] = "fuzzy" THEN (IF Fuzz(d) = "fuzzy" THEN <<"U", "FuzzyNot", << <<"InFieldName", <<"ref", "T">>>> >> >>
                                    ELSE <<"U", "CvtToFuzzy", << <<"InFieldName", <<"ref", "T">>>> >> >>)
    ELSE IF Fuzz(d) = "fuzzy" THEN <<"U", "CvtFromFuzzy", << <<"InFieldName", <<"ref", "T">>>>, <<"TrueThreshold", <<"int", "other">>>>, <<"FalseThreshold", <<"float">>>> >> >>
    ELSE <<"U", "Copy", << <<"InFieldName", <<"ref", "T">>>> >> >>
\* a command outside the cycle that reads T through a parameter that constrains fuzziness (what it asks about T must not walk round the cycle for ever)
Reader(cname) == LET d == D(cname) IN
    IF OutKind(d) # "data" THEN <<>>
    ELSE IF Fuzz(d) = "fuzzy" THEN << <<"V", "FuzzyOr", << <<"InFieldNames", <<"list", <<<<"ref", "T">>, <<"ref", "F">>>>>> >> >> >> >>
    ELSE << <<"V", "Sum", << <<"InFieldNames", <<"list", <<<<"ref", "T">>, <<"ref", "R">>>>>> >> >> >> >>
Fix(cname, f) == IF f[1] = "pair" THEN Fixture \o <<Cmd("PP", f[3], FALSE)>>
                 ELSE IF f[1] = "cycle" THEN Fixture \o <<BackEdge(cname, f[2])>> \o Reader(cname) ELSE Fixture
Build(cname, all, f, pos) == IF pos = "first" THEN <<Target(cname, all, f)>> \o Fix(cname, f) ELSE Fix(cname, f) \o <<Target(cname, all, f)>>

\* ---------- reference cycles of a program
RECURSIVE RefsOf(_)
RefsOf(v) == IF v[1] = "ref" THEN {v[2]} ELSE IF v[1] = "list" THEN UNION {RefsOf(v[2][k]) : k \in 1..Len(v[2])} ELSE {}
DepNames(prog, c) == UNION {RefsOf(Args(c)[k][2]) : k \in 1..Len(Args(c))} \cap Results(prog)
RECURSIVE ReachNames(_, _, _)
ReachNames(prog, S, n) == IF n = 0 THEN S ELSE ReachNames(prog, S \cup UNION {DepNames(prog, Producer(prog, x)) : x \in S}, n - 1)
Cyclic(prog) == \E i \in 1..Len(prog) : Res(prog[i]) \in ReachNames(prog, DepNames(prog, prog[i]), Len(prog))
=============================================================================
