----------------------------- MODULE MPSyntaxDefs -----------------------------
(***************************************************************************)
(* The command-file language of mpilot (mpilot/parser/parser.py) at token  *)
(* level: abstract syntax, its denotation (a recursive-descent parser over *)
(* token sequences), the renderer as a state machine (every behaviour is a *)
(* concrete rendering of a program together with the true start line of    *)
(* every node), and the single-token corruptions that must be rejected.    *)
(*                                                                         *)
(* AST:  program == sequence of <<result name or "", command, args>>       *)
(*       args    == sequence of <<name, value>>                            *)
(*       value   == <<"int", id>> | <<"float", id>> | <<"bool", "True"|..>> *)
(*                | <<"str", id, style>>   style: "dq" | "sq" | "bare"      *)
(*                | <<"list", <<values>>>> | <<"tuple", <<<<key, val>>..>>>>*)
(*         (ids stand for concrete lexemes chosen by the harness; tuple     *)
(*          keys/values are <<"str", id, style>> or numbers)                *)
(* token: <<kind, payload, starts>>; starts = the node paths that begin at *)
(*        this token (command <<i>>, argument <<i,j>>, its value <<i,j,0>>, *)
(*        list element / tuple pair k: path \o <<k>>)                       *)
(***************************************************************************)
EXTENDS Integers, Sequences, FiniteSets, TLC, SequencesExt

\* ---------- flattening an AST into tokens
Tok(k, p) == <<k, p, <<>>>>
Mark(t, path) == <<t[1], t[2], <<path>> \o t[3]>>
MarkFirst(ts, path) == <<Mark(ts[1], path)>> \o Tail(ts)
Comma == Tok("COMMA", "")

RECURSIVE FlatVal(_, _, _)
FlatScalar(v) ==
    CASE v[1] = "int" -> Tok("INT", v[2])
      [] v[1] = "float" -> Tok("FLOAT", v[2])
      [] v[1] = "bool" -> Tok("BOOL", v[2])
      [] v[1] = "str" -> IF v[3] = "bare" THEN Tok("BARE", v[2]) ELSE Tok("QSTR", <<v[2], v[3]>>)
FlatVal(v, path, tc) ==
    IF v[1] = "list" THEN
         LET items == v[2]
             body == FlattenSeq([k \in 1..Len(items) |->
                        FlatVal(items[k], path \o <<k>>, tc) \o (IF k < Len(items) \/ tc THEN <<Comma>> ELSE <<>>)])
         IN <<Mark(Tok("LB", ""), path)>> \o body \o <<Tok("RB", "")>>
    ELSE IF v[1] = "tuple" THEN
         LET pairs == v[2]
             body == FlattenSeq([k \in 1..Len(pairs) |->
                        <<Mark(FlatScalar(pairs[k][1]), path \o <<k>>), Tok("COLON", ""), FlatScalar(pairs[k][2])>>
                        \o (IF k < Len(pairs) \/ tc THEN <<Comma>> ELSE <<>>)])
         IN <<Mark(Tok("LB", ""), path)>> \o body \o <<Tok("RB", "")>>
    ELSE <<Mark(FlatScalar(v), path)>>
FlatArg(a, i, j, tc) == <<Mark(Tok("ID", a[1]), <<i, j>>), Tok("EQ", "")>> \o FlatVal(a[2], <<i, j, 0>>, tc)
FlatCmd(c, i, tc) ==
    LET head == IF c[1] = "" THEN <<Mark(Tok("ID", c[2]), <<i>>)>>
                ELSE <<Mark(Tok("ID", c[1]), <<i>>), Tok("EQ", ""), Tok("ID", c[2])>>
        args == c[3]
        body == FlattenSeq([j \in 1..Len(args) |-> FlatArg(args[j], i, j, tc) \o (IF j < Len(args) \/ tc THEN <<Comma>> ELSE <<>>)])
    IN head \o <<Tok("LP", "")>> \o body \o <<Tok("RP", "")>>
Flat(prog, tc) == FlattenSeq([i \in 1..Len(prog) |-> FlatCmd(prog[i], i, tc)])

\* ---------- denotation: recursive descent over <<kind, payload, _>> tokens
FAIL == [ok |-> FALSE, ast |-> <<>>, rest |-> <<>>]
OK(a, r) == [ok |-> TRUE, ast |-> a, rest |-> r]
Is(ts, k) == ts # <<>> /\ Head(ts)[1] = k
ScalarOf(t) == CASE t[1] = "INT" -> <<"int", t[2]>>
                 [] t[1] = "FLOAT" -> <<"float", t[2]>>
                 [] t[1] = "BOOL" -> <<"bool", t[2]>>
                 [] t[1] = "BARE" -> <<"str", t[2], "bare">>
                 [] t[1] = "ID" -> <<"str", t[2], "bare">>
                 [] t[1] = "QSTR" -> <<"str", t[2][1], t[2][2]>>
IsScalarTok(t) == t[1] \in {"INT", "FLOAT", "BOOL", "BARE", "QSTR", "ID"}
\* the words True / False are ordinary words wherever a string may stand
IsKeyTok(t) == t[1] \in {"BARE", "QSTR", "ID", "BOOL"}
IsTupleValTok(t) == t[1] \in {"INT", "FLOAT", "BARE", "QSTR", "ID", "BOOL"}

RECURSIVE PVal(_), PElems(_), PPairs(_)
PVal(ts) ==
    IF ts = <<>> THEN FAIL
    ELSE IF Head(ts)[1] = "LB" THEN
         IF Is(Tail(ts), "RB") THEN OK(<<"list", <<>>>>, Tail(Tail(ts)))
         ELSE IF Len(ts) >= 3 /\ IsKeyTok(ts[2]) /\ ts[3][1] = "COLON" THEN
              LET r == PPairs(Tail(ts)) IN IF r.ok /\ Is(r.rest, "RB") THEN OK(<<"tuple", r.ast>>, Tail(r.rest)) ELSE FAIL
         ELSE LET r == PElems(Tail(ts)) IN IF r.ok /\ Is(r.rest, "RB") THEN OK(<<"list", r.ast>>, Tail(r.rest)) ELSE FAIL
    ELSE IF IsScalarTok(Head(ts)) THEN OK(ScalarOf(Head(ts)), Tail(ts))
    ELSE FAIL
PElems(ts) ==
    LET e == PVal(ts) IN
    IF ~e.ok THEN FAIL
    ELSE IF Is(e.rest, "COMMA") THEN
         IF Is(Tail(e.rest), "RB") THEN OK(<<e.ast>>, Tail(e.rest))
         ELSE LET r == PElems(Tail(e.rest)) IN IF r.ok THEN OK(<<e.ast>> \o r.ast, r.rest) ELSE FAIL
    ELSE OK(<<e.ast>>, e.rest)
PPairs(ts) ==
    IF Len(ts) >= 3 /\ IsKeyTok(ts[1]) /\ ts[2][1] = "COLON" /\ IsTupleValTok(ts[3]) THEN
         LET pair == <<ScalarOf(ts[1]), ScalarOf(ts[3])>> rest == SubSeq(ts, 4, Len(ts)) IN
         IF Is(rest, "COMMA") THEN
              IF Is(Tail(rest), "RB") THEN OK(<<pair>>, Tail(rest))
              ELSE LET r == PPairs(Tail(rest)) IN IF r.ok THEN OK(<<pair>> \o r.ast, r.rest) ELSE FAIL
         ELSE OK(<<pair>>, rest)
    ELSE FAIL
RECURSIVE PArgs(_)
PArgs(ts) ==
    IF Is(ts, "ID") /\ Is(Tail(ts), "EQ") THEN
         LET e == PVal(Tail(Tail(ts))) IN
         IF ~e.ok THEN FAIL
         ELSE IF Is(e.rest, "COMMA") THEN
              IF Is(Tail(e.rest), "RP") THEN OK(<< <<Head(ts)[2], e.ast>> >>, Tail(e.rest))
              ELSE LET r == PArgs(Tail(e.rest)) IN IF r.ok THEN OK(<< <<Head(ts)[2], e.ast>> >> \o r.ast, r.rest) ELSE FAIL
         ELSE OK(<< <<Head(ts)[2], e.ast>> >>, e.rest)
    ELSE FAIL
PArgList(ts) ==   \* LP ... RP
    IF ~Is(ts, "LP") THEN FAIL
    ELSE IF Is(Tail(ts), "RP") THEN OK(<<>>, Tail(Tail(ts)))
    ELSE LET a == PArgs(Tail(ts)) IN IF a.ok /\ Is(a.rest, "RP") THEN OK(a.ast, Tail(a.rest)) ELSE FAIL
PCmd(ts) ==
    IF Is(ts, "ID") /\ Is(Tail(ts), "EQ") /\ Is(Tail(Tail(ts)), "ID") THEN
         LET a == PArgList(SubSeq(ts, 4, Len(ts))) IN IF a.ok THEN OK(<<ts[1][2], ts[3][2], a.ast>>, a.rest) ELSE FAIL
    ELSE IF Is(ts, "ID") THEN
         LET a == PArgList(Tail(ts)) IN IF a.ok THEN OK(<<"", ts[1][2], a.ast>>, a.rest) ELSE FAIL
    ELSE FAIL
RECURSIVE PCmds(_)
PCmds(ts) == LET c == PCmd(ts) IN
             IF ~c.ok THEN FAIL ELSE IF c.rest = <<>> THEN OK(<<c.ast>>, <<>>)
             ELSE LET r == PCmds(c.rest) IN IF r.ok THEN OK(<<c.ast>> \o r.ast, <<>>) ELSE FAIL
Denote(ts) == PCmds(ts)
Recognize(ts) == PCmds(ts).ok
Version(prog) == IF \E i \in 1..Len(prog) : prog[i][1] = "" THEN 2 ELSE 3

\* ---------- single-token corruptions (classes for which rejection is demanded)
Del(ts, k) == SubSeq(ts, 1, k - 1) \o SubSeq(ts, k + 1, Len(ts))
Dup(ts, k) == SubSeq(ts, 1, k) \o SubSeq(ts, k, Len(ts))
Ins(ts, k, t) == SubSeq(ts, 1, k - 1) \o <<t>> \o SubSeq(ts, k, Len(ts))
Brackets == {"LP", "RP", "LB", "RB"}
Corruptions(ts) ==
    {<<"del-bracket", k, Del(ts, k)>> : k \in {k \in 1..Len(ts) : ts[k][1] \in Brackets}}
    \cup {<<"dup-bracket", k, Dup(ts, k)>> : k \in {k \in 1..Len(ts) : ts[k][1] \in Brackets}}
    \cup {<<"del-eq", k, Del(ts, k)>> : k \in {k \in 1..Len(ts) : ts[k][1] = "EQ"}}
    \cup {<<"dup-eq", k, Dup(ts, k)>> : k \in {k \in 1..Len(ts) : ts[k][1] = "EQ"}}
    \cup {<<"dup-comma", k, Dup(ts, k)>> : k \in {k \in 1..Len(ts) : ts[k][1] = "COMMA"}}
    \cup {<<"lead-comma", k, Ins(ts, k + 1, Comma)>> : k \in {k \in 1..Len(ts) : ts[k][1] \in {"LP", "LB"}}}
    \* a key:value pair among the plain elements of a list ([1, k: 2]) - the list would silently lose it if it were accepted
    \cup {<<"mix-pair", k, SubSeq(ts, 1, k) \o <<Tok("BARE", "k1"), Tok("COLON", "")>> \o SubSeq(ts, k + 1, Len(ts))>> :
             k \in {k \in 1..(Len(ts) - 2) : ts[k][1] = "COMMA" /\ IsScalarTok(ts[k + 1]) /\ ts[k + 2][1] \in {"COMMA", "RB"}}}
    \cup {<<"truncate", k, SubSeq(ts, 1, k)>> : k \in {k \in 1..(Len(ts) - 1) : ~(ts[k][1] = "RP" /\ ts[k + 1][1] = "ID")}}
=============================================================================
