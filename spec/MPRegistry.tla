------------------------------ MODULE MPRegistry ------------------------------
(***************************************************************************)
(* The command registry (C19): CommandMeta._commands is one process-global *)
(* set filled as a side effect of executing class definitions; a Program   *)
(* builds its command table by filtering that set with the requested       *)
(* library names.  Modules are sequences of name components.               *)
(*   PrefixRule = "component": module m belongs to library l iff l is a    *)
(*                component-wise prefix of m (intended)                    *)
(*              = "string": iff the dotted text of m starts with the       *)
(*                dotted text of l (pinned)                                *)
(***************************************************************************)
EXTENDS Integers, Sequences, FiniteSets, TLC
CONSTANTS PrefixRule, MaxHist, PairsAllowed     \* PairsAllowed: programs over ordered pairs of libraries as well as single ones

\* the static world: modules and the command names their source text defines
Mods == { <<"vlib_a", "cmds">>, <<"vlib_a", "sub", "cmds">>, <<"vlib_ab", "cmds">>, <<"vlib_c">>, <<"xvlib_c">>, <<"vlib_d">>,
          <<"mpilot", "libraries", "eems", "csv", "io">>, <<"mpilot", "libraries", "eems", "netcdf", "io">> }
Names(m) == CASE m = <<"vlib_a", "cmds">> -> {"Foo", "Bar"}
              [] m = <<"vlib_a", "sub", "cmds">> -> {"Qux"}
              [] m = <<"vlib_ab", "cmds">> -> {"Foo", "Baz"}
              [] m = <<"vlib_c">> -> {"Foo", "Variant"}       \* Variant: a subclass of Foo without an execute() of its own
              [] m = <<"xvlib_c">> -> {"Foo", "Bar"}            \* its name ends with "vlib_c": not part of that library either
              [] m = <<"vlib_d">> -> {"Foo", "Zed"}             \* its Foo is a subclass of vlib_c's Foo with the same command name: still a duplicate
              [] m = <<"mpilot", "libraries", "eems", "csv", "io">> -> {"EEMSRead", "EEMSWrite"}
              [] m = <<"mpilot", "libraries", "eems", "netcdf", "io">> -> {"EEMSRead", "EEMSWrite"}
              [] OTHER -> {}
\* modules in which a class may be defined at run time (not part of any library's source)
DynMods == { <<"vlib_a_extra">>, <<"userscript">> }
Libs == { <<"vlib_a">>, <<"vlib_ab">>, <<"vlib_a", "sub">>, <<"vlib_c">>, <<"vlib_d">>,
          <<"mpilot", "libraries", "eems", "csv">>, <<"mpilot", "libraries", "eems", "netcdf">> }
\* requests: one library, an ordered pair, the package that contains both I/O libraries (a single request that selects EEMSRead/EEMSWrite twice),
\* and the empty request (no library at all: no command at all)
LibSets == {<<l>> : l \in Libs} \cup {<< <<"mpilot", "libraries", "eems">> >>, <<>>} \cup (IF PairsAllowed THEN {<<a, b>> : a \in Libs, b \in Libs} ELSE {})

IsPrefixSeq(l, m) == Len(l) <= Len(m) /\ \A i \in 1..Len(l) : l[i] = m[i]
\* "a.b".startswith("a") on dotted names: every full component matches, and the last requested component is a string prefix
\* of the module's component at that position (the only string-prefix relation between the names used here: vlib_a < vlib_ab, vlib_a_extra)
StrPrefix(a, b) == a = b \/ (a = "vlib_a" /\ b \in {"vlib_ab", "vlib_a_extra"})
StartsWith(l, m) == Len(l) <= Len(m) /\ (\A i \in 1..(Len(l) - 1) : l[i] = m[i]) /\ StrPrefix(l[Len(l)], m[Len(l)])
Under(m, l) == IF PrefixRule = "component" THEN IsPrefixSeq(l, m) ELSE StartsWith(l, m)
UnderAny(m, ls) == \E i \in 1..Len(ls) : Under(m, ls[i])

\* what a program over ls must see, from ls and the static world alone
IdealPairs(ls) == {<<m, n>> \in UNION {{<<m, n>> : n \in Names(m)} : m \in Mods} : \E i \in 1..Len(ls) : IsPrefixSeq(ls[i], m)}
IdealDuplicate(ls) == \E p, q \in IdealPairs(ls) : p[2] = q[2] /\ p[1] # q[1]
Ideal(ls) == IF IdealDuplicate(ls) THEN <<"error", {}>> ELSE <<"table", IdealPairs(ls)>>

VARIABLES registry,   \* set of <<module, command name>> (the metaclass keeps the first class per pair)
          hist        \* sequence of <<action, argument, result>>
vars == <<registry, hist>>
Init == registry = {} /\ hist = <<>>
Exec(ms) == registry \cup UNION {{<<m, n>> : n \in Names(m)} : m \in ms}
ImportModule(m) == /\ Len(hist) < MaxHist /\ registry' = Exec({m}) /\ hist' = Append(hist, <<"import", m, <<"none", {}>>>>)
DefineClass(m, n) == /\ Len(hist) < MaxHist /\ registry' = registry \cup {<<m, n>>} /\ hist' = Append(hist, <<"define", <<m, n>>, <<"none", {}>>>>)
\* Program(libraries=ls): every module of every requested library is (re-)executed, then the global registry is filtered
NewProgram(ls) ==
    /\ Len(hist) < MaxHist
    /\ LET reg == Exec({m \in Mods : \E i \in 1..Len(ls) : IsPrefixSeq(ls[i], m)})
           sel == {p \in reg : UnderAny(p[1], ls)}
           dup == \E p, q \in sel : p[2] = q[2] /\ p[1] # q[1]
       IN /\ registry' = reg
          /\ hist' = Append(hist, <<"program", ls, IF dup THEN <<"error", {}>> ELSE <<"table", sel>>>>)
\* a user adds an entry to the (public) command table of an earlier program: that program's own business only
MutateTable(k) == /\ Len(hist) < MaxHist /\ k \in 1..Len(hist) /\ hist[k][1] = "program" /\ hist[k][3][1] = "table"
                  /\ hist' = Append(hist, <<"mutate", k, <<"none", {}>>>>) /\ UNCHANGED registry
Next == \/ \E m \in Mods : ImportModule(m)
        \/ \E k \in 1..MaxHist : MutateTable(k)
        \/ \E m \in DynMods, n \in {"Foo", "Zed"} : DefineClass(m, n)
        \/ \E ls \in LibSets : NewProgram(ls)
\* C19
HistoryIndependent == \A k \in 1..Len(hist) : hist[k][1] = "program" => hist[k][3] = Ideal(hist[k][2])
Report == Len(hist) = MaxHist => PrintT(<<"HIST", [k \in 1..Len(hist) |-> <<hist[k][1], hist[k][2]>>]>>)
=============================================================================
