------------------------------ MODULE MPDeclDocs ------------------------------
(***************************************************************************)
(* The user documentation as a second, independent source of the command   *)
(* declarations (C12: "well-formed" is what the documentation says a       *)
(* command takes).  MC_Decl.Decl is generated from the live classes,       *)
(* MC_DocDecl.DocDecl from docs/user/lib-eems-*.rst:                       *)
(*   << <<command, << <<parameter, kind word, required>>, ... >>, fuzziness of the result or "">>, ... >> *)
(* A parameter the documentation and the code both know must be optional   *)
(* in the code iff the documentation marks it *Optional*, and of the       *)
(* documented kind; otherwise a model written from the documentation is    *)
(* rejected (or an ill-formed one accepted).  Parameters known to only one *)
(* side (a handful of misspelt names in the documentation) are reported    *)
(* as notes, not judged.                                                   *)
(***************************************************************************)
EXTENDS MPValidateDefs, MC_DocDecl, SequencesExt

KindWord(cfg) == CASE cfg[1] = "String" -> "string" [] cfg[1] = "Number" -> "number" [] cfg[1] = "Boolean" -> "boolean" [] cfg[1] = "Path" -> "path"
                   [] cfg[1] = "Result" -> "result" [] cfg[1] = "List" -> "list" [] cfg[1] = "Tuple" -> "tuple" [] cfg[1] = "DataType" -> "data-type"
                   [] OTHER -> "other"
Both == {<<k, m>> \in (1..Len(DocDecl)) \X (1..20) :
            /\ DocDecl[k][1] \in DeclNames /\ m <= Len(DocDecl[k][2]) /\ DocDecl[k][2][m][1] \in PNames(D(DocDecl[k][1]))}
RequiredDiffers == {<<DocDecl[km[1]][1], DocDecl[km[1]][2][km[2]][1]>> : km \in {km \in Both :
                        (DocDecl[km[1]][2][km[2]][1] \in Required(D(DocDecl[km[1]][1]))) # DocDecl[km[1]][2][km[2]][3]}}
KindDiffers == {<<DocDecl[km[1]][1], DocDecl[km[1]][2][km[2]][1]>> : km \in {km \in Both :
                        KindWord(Cfg(D(DocDecl[km[1]][1]), DocDecl[km[1]][2][km[2]][1])) # DocDecl[km[1]][2][km[2]][2]}}
Undeclared == {DocDecl[k][1] : k \in {k \in 1..Len(DocDecl) : DocDecl[k][1] \notin DeclNames}}
\* where the fuzziness of a command's result is stated (third field; "" = not stated) it is the declared one
FuzzDiffers == {DocDecl[k][1] : k \in {k \in 1..Len(DocDecl) : DocDecl[k][3] # "" /\ DocDecl[k][1] \in DeclNames /\ Fuzz(D(DocDecl[k][1])) # DocDecl[k][3]}}

VARIABLE x
Init == x = 0 /\ PrintT(<<"REQUIRED", SetToSeq(RequiredDiffers)>>) /\ PrintT(<<"KIND", SetToSeq(KindDiffers)>>) /\ PrintT(<<"UNDECLARED", SetToSeq(Undeclared)>>) /\ PrintT(<<"FUZZ", SetToSeq(FuzzDiffers)>>)
Next == UNCHANGED x
DocsAgree == RequiredDiffers = {} /\ KindDiffers = {} /\ Undeclared = {} /\ FuzzDiffers = {}
=============================================================================
