-------------------------------- MODULE MPCli --------------------------------
(***************************************************************************)
(* The command-line tool (mpilot/cli/mpilot.py) as a state machine:        *)
(* read the file, Program.from_source + run, report.  `outcome` is what    *)
(* load+run did (chosen nondeterministically: it is decided by the other   *)
(* specifications); the CLI's obligations are C13's last sentence and the  *)
(* context line of C11.                                                    *)
(***************************************************************************)
EXTENDS Integers, Sequences, TLC

CONSTANTS StrTotal,     \* every MPilot error can be rendered as text (FALSE = pinned: MixedArrayShapes of 1-D shapes raises in __str__)
          NLines        \* lines in the command file

Outcomes == {"ok", "mpilot", "syntax", "other"}
VARIABLES stage, fileExists, outcome, lineno, renderable, exit, banner, message, arrow, traceback
vars == <<stage, fileExists, outcome, lineno, renderable, exit, banner, message, arrow, traceback>>

Init == /\ stage = "start" /\ fileExists \in BOOLEAN /\ outcome = "none" /\ lineno = 0 /\ renderable = TRUE
        /\ exit = -1000 /\ banner = FALSE /\ message = FALSE /\ arrow = 0 /\ traceback = FALSE

NoFile == /\ stage = "start" /\ ~fileExists /\ stage' = "exited" /\ exit' = 255 /\ message' = TRUE
          /\ UNCHANGED <<fileExists, outcome, lineno, renderable, banner, arrow, traceback>>
\* Program.from_source(...).run(): any outcome, MPilot errors may carry a line (0 = none)
LoadRun == /\ stage = "start" /\ fileExists /\ stage' = "ran"
           /\ outcome' \in Outcomes /\ lineno' \in 0..NLines
           /\ renderable' \in (IF StrTotal THEN {TRUE} ELSE BOOLEAN)
           /\ UNCHANGED <<fileExists, exit, banner, message, arrow, traceback>>
Success == /\ stage = "ran" /\ outcome = "ok" /\ stage' = "exited" /\ exit' = 0
           /\ UNCHANGED <<fileExists, outcome, lineno, renderable, banner, message, arrow, traceback>>
\* except MPilotError: banner, the problem/solution text, the context window with the marked line, exit -1
Handle == /\ stage = "ran" /\ outcome = "mpilot" /\ stage' = "exited"
          /\ IF renderable THEN /\ banner' = TRUE /\ message' = TRUE /\ arrow' = lineno /\ exit' = 255 /\ UNCHANGED traceback
             ELSE /\ traceback' = TRUE /\ exit' = 1 /\ UNCHANGED <<banner, message, arrow>>     \* str(ex) raised inside the handler
          /\ UNCHANGED <<fileExists, outcome, lineno, renderable>>
\* anything else is not caught
Escape == /\ stage = "ran" /\ outcome \in {"syntax", "other"} /\ stage' = "exited" /\ traceback' = TRUE /\ exit' = 1
          /\ UNCHANGED <<fileExists, outcome, lineno, renderable, banner, message, arrow>>
Next == NoFile \/ LoadRun \/ Success \/ Handle \/ Escape
Spec == Init /\ [][Next]_vars /\ WF_vars(Next)

\* C13: for MPilot errors the tool exits non-zero and prints the problem/solution message to standard error
ReportsMPilotErrors == (stage = "exited" /\ outcome = "mpilot") => (exit # 0 /\ banner /\ message /\ ~traceback)
\* C11: the marked line is the error's line
MarksErrorLine == (stage = "exited" /\ outcome = "mpilot" /\ lineno > 0) => arrow = lineno
SuccessIsZero == (stage = "exited" /\ outcome = "ok") => exit = 0
NeverSilent == (stage = "exited" /\ exit # 0) => (message \/ traceback)
Exits == <>(stage = "exited")
=============================================================================
