---------------------------- MODULE MPParamsTrace ----------------------------
(***************************************************************************)
(* Validation of recorded Parameter.clean calls against MPParams.Clean.    *)
(* record == [id, p, v, env, obs] with                                     *)
(*   obs == <<outcome, detail, repeat, idem, rawsame, progsame, valeq, nexec>>*)
(*   outcome "ok": detail = kind of the returned value (same encoding as v) *)
(*   outcome "err": detail = class name of the exception                   *)
(*   repeat: second clean of the same raw value gave an equal outcome      *)
(*   idem: "same" | "diff" | "err" | "na"  (clean of the cleaned value)     *)
(*   rawsame / progsame: raw argument / program unchanged by the calls     *)
(*   valeq: the returned value is the documented one (e.g. "3" -> 3)        *)
(*   nexec: number of command executions caused by cleaning                *)
(***************************************************************************)
EXTENDS MPParamsTable, Json, IOUtils

Traces == ndJsonDeserialize(IOEnv.TRACE_FILE)
VARIABLES tid, verdict
T == Traces[tid]

Judge(t) ==
    LET exp == Clean(t.p, t.v, t.env) o == t.obs IN
    IF o[1] = "err" /\ o[2] \notin ParameterErrors THEN "C20.ForeignException"
    ELSE IF exp[1] = "ok" /\ o[1] = "err" THEN "C20.RejectedValid"
    ELSE IF exp[1] = "ok" /\ o[2] # exp[2] THEN "C20.Type"
    ELSE IF exp[1] = "err" /\ o[1] = "ok" THEN "C20.AcceptedInvalid"
    ELSE IF exp[1] = "err" /\ ~(\E i \in 1..Len(exp[2]) : exp[2][i] = o[2]) THEN "C20.ErrorClass"
    ELSE IF ~o[3] THEN "C20.NotRepeatable"
    ELSE IF o[1] = "ok" /\ exp[1] = "ok" /\ ~o[7] THEN "C20.Value"
    ELSE IF o[1] = "ok" /\ exp[1] = "ok" /\ IdemApplies(t.p, t.env) /\ o[4] \in {"diff", "err"} THEN "C20.NotIdempotent"
    ELSE IF ~o[5] THEN "C20.Mutated"
    ELSE IF ~o[6] THEN "C20.ProgramMutated"
    ELSE IF o[8] # 0 THEN "C20.Executed"
    ELSE "ok"

Init == tid \in 1..Len(Traces) /\ verdict = "pending"
Next == verdict = "pending" /\ verdict' = Judge(T) /\ UNCHANGED tid
Report == verdict # "pending" => PrintT(<<"VERDICT", T.id, verdict>>)
=============================================================================
