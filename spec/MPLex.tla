-------------------------------- MODULE MPLex --------------------------------
(***************************************************************************)
(* Lexical layer of the command-file language: strings as sequences of     *)
(* character classes; quoting and unquoting (escapes \\ \" \' \n \t, all    *)
(* other characters - non-ASCII included - literally); admissibility of    *)
(* unquoted (bare) strings; number lexemes and their kind.                 *)
(***************************************************************************)
EXTENDS Integers, Sequences, FiniteSets, TLC

Classes == {"L", "n", "t", "D", "SP", "DQ", "SQ", "BS", "HASH", "COLON", "COMMA", "EQ", "LP", "RB", "PM", "DOT", "SLASH", "US", "NA", "NL", "TAB"}
\* "n" and "t" are the letters n and t (they matter after a backslash); "NA" is any non-ASCII character

\* ---------- quoting
EscChar(c, q) == CASE c = "BS" -> <<"BS", "BS">>
                   [] c = q -> <<"BS", q>>
                   [] c = "NL" -> <<"BS", "n">>
                   [] c = "TAB" -> <<"BS", "t">>
                   [] OTHER -> <<c>>
RECURSIVE EscSeq(_, _)
EscSeq(s, q) == IF s = <<>> THEN <<>> ELSE EscChar(Head(s), q) \o EscSeq(Tail(s), q)
Quote(s, q) == <<q>> \o EscSeq(s, q) \o <<q>>
RECURSIVE Unesc(_)
Unesc(s) == IF s = <<>> THEN <<>>
            ELSE IF Head(s) = "BS" /\ Len(s) >= 2 THEN
                 (CASE s[2] = "BS" -> <<"BS">> [] s[2] = "DQ" -> <<"DQ">> [] s[2] = "SQ" -> <<"SQ">>
                    [] s[2] = "n" -> <<"NL">> [] s[2] = "t" -> <<"TAB">> [] OTHER -> <<"BS", s[2]>>) \o Unesc(SubSeq(s, 3, Len(s)))
            ELSE <<Head(s)>> \o Unesc(Tail(s))
Unquote(lex) == Unesc(SubSeq(lex, 2, Len(lex) - 1))
\* a quoted lexeme is one token: inside, every quote character of its own kind and every backslash is escaped
RECURSIVE WellEscaped(_, _)
WellEscaped(s, q) == IF s = <<>> THEN TRUE
                     ELSE IF Head(s) = "BS" THEN Len(s) >= 2 /\ s[2] # "NL" /\ WellEscaped(SubSeq(s, 3, Len(s)), q)
                     ELSE Head(s) # q /\ WellEscaped(Tail(s), q)
IsQuotedLexeme(lex) == Len(lex) >= 2 /\ lex[1] \in {"DQ", "SQ"} /\ lex[Len(lex)] = lex[1] /\ WellEscaped(SubSeq(lex, 2, Len(lex) - 1), lex[1])

\* ---------- bare strings: the core language both documentation and tests agree on
WordChars == {"L", "n", "t", "D", "US"}
PlainOnly == {"SLASH", "BS", "DOT", "PM", "NA"}      \* characters that can only be lexed as part of a plain string
BareChars == WordChars \cup PlainOnly \cup {"SP"}
NoBadSpaces(s) == s[1] # "SP" /\ s[Len(s)] # "SP" /\ \A i \in 1..(Len(s) - 1) : ~(s[i] = "SP" /\ s[i + 1] = "SP")
\* shape (a): starts with a plain-only character: one PLAIN_STRING token, inner single spaces allowed
ShapePlain(s) == s[1] \in (PlainOnly \ {"DOT", "PM"}) /\ \A i \in 1..Len(s) : s[i] \in BareChars
\* shape (b): an identifier, optionally followed by a tail that starts with a plain-only character not followed by a digit
ShapeWord(s) == /\ s[1] \in {"L", "n", "t", "US"}
                /\ \E k \in 1..Len(s) :
                      /\ \A i \in 1..k : s[i] \in WordChars
                      /\ (k = Len(s) \/ (s[k + 1] \in PlainOnly /\ (k + 2 <= Len(s) => s[k + 2] # "D") /\ (s[k + 1] \in {"DOT", "PM"} => k + 2 <= Len(s))
                                         /\ (s[k + 1] = "PM" => ~(k + 3 <= Len(s) /\ s[k + 2] = "DOT" /\ s[k + 3] = "D"))
                                         /\ \A i \in (k + 1)..Len(s) : s[i] \in BareChars))
\* shape (c): digits followed by an identifier
ShapeDigitWord(s) == s[1] = "D" /\ \E k \in 1..(Len(s) - 1) : (\A i \in 1..k : s[i] = "D") /\ s[k + 1] \in {"L", "n", "t", "US"} /\ \A i \in (k + 1)..Len(s) : s[i] \in WordChars
BareOk(s) == s # <<>> /\ NoBadSpaces(s) /\ (ShapePlain(s) \/ ShapeWord(s) \/ ShapeDigitWord(s))
\* a word-shaped string with an inner space before any plain-only character: documented ("This is a string."), lexed word by word
MultiWord(s) == s # <<>> /\ NoBadSpaces(s) /\ s[1] \in {"L", "n", "t", "US"} /\ (\E i \in 1..Len(s) : s[i] = "SP")
                /\ (\A i \in 1..Len(s) : s[i] \in WordChars \cup {"SP", "DOT"}) /\ (\A i \in 1..(Len(s) - 1) : s[i] = "DOT" => s[i + 1] \notin {"D"})
                /\ \A i \in 1..(Len(s) - 1) : s[i] = "SP" => s[i + 1] \notin {"D", "DOT"}

\* ---------- case machine
CONSTANTS MaxLen, Mode      \* Mode = "quoted" | "bare" | "multiword"
Strings == UNION {[1..k -> Classes] : k \in 0..MaxLen}
VARIABLES s, q, lex, back, done
vars == <<s, q, lex, back, done>>
Init == /\ s \in (CASE Mode = "quoted" -> Strings
                    [] Mode = "bare" -> {x \in UNION {[1..k -> BareChars] : k \in 1..MaxLen} : BareOk(x)}
                    [] Mode = "multiword" -> {x \in UNION {[1..k -> WordChars \cup {"SP", "DOT"}] : k \in 1..MaxLen} : MultiWord(x)})
        /\ q \in (IF Mode = "quoted" THEN {"DQ", "SQ"} ELSE {"none"})
        /\ lex = <<>> /\ back = <<>> /\ done = FALSE
Apply == /\ ~done /\ done' = TRUE
         /\ lex' = (IF Mode = "quoted" THEN Quote(s, q) ELSE s)
         /\ back' = (IF Mode = "quoted" THEN Unquote(Quote(s, q)) ELSE s)
         /\ UNCHANGED <<s, q>>
Next == Apply
QuoteRoundTrip == done => back = s
QuotedIsOneToken == (done /\ Mode = "quoted") => IsQuotedLexeme(lex)
BareNeedsNoQuotes == (done /\ Mode # "quoted") => \A i \in 1..Len(s) : s[i] \notin {"DQ", "SQ", "HASH", "COMMA", "EQ", "LP", "RB", "NL", "COLON"}
=============================================================================
