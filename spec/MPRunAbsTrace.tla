---------------------------- MODULE MPRunAbsTrace ----------------------------
(***************************************************************************)
(* Property-level (abstract) specification of the run engine, used to      *)
(* validate event traces recorded from the real code.  It accepts every    *)
(* schedule (pull-based DFS as today, or any other order) as long as       *)
(*   - no command is executed while finished or in progress   (C01, C14)   *)
(*   - every read inside an execution returns the current value of a       *)
(*     finished command, and every referenced result is read      (C01)    *)
(*   - a successful run leaves every command finished             (C01)    *)
(*   - a cyclic program is rejected with RecursiveModelStructure  (C14)    *)
(* The spec is total: every event can be consumed; a failed guard sets     *)
(* `verdict` to the name of the violated clause.                           *)
(* One TLC run validates a whole batch: tid selects the trace; the         *)
(* dependency graph travels in the trace header.                           *)
(***************************************************************************)
EXTENDS Integers, Sequences, FiniteSets, TLC, Json, IOUtils

Traces == ndJsonDeserialize(IOEnv.TRACE_FILE)

VARIABLES tid, l, st, val, reads, stack, verdict, absent
vars == <<tid, l, st, val, reads, stack, verdict, absent>>

T == Traces[tid]
Ev == T.ev
Cmds == DOMAIN T.deps
DepsOf(c) == {T.deps[c][i] : i \in 1..Len(T.deps[c])}
Fails == {T.fails[i] : i \in 1..Len(T.fails)}
IgnoredOf(c) == {T.ignored[c][i] : i \in 1..Len(T.ignored[c])}      \* references c's execute is known not to read

RECURSIVE Reach(_, _)
Reach(S, k) == IF k = 0 THEN S ELSE Reach(S \cup UNION {DepsOf(c) : c \in S}, k - 1)
NC == Cardinality(Cmds)
OnCycle(c) == c \in Reach(DepsOf(c), NC)
HasCycle == \E c \in Cmds : OnCycle(c)
\* what reading c's result has to evaluate: the references that are actually read (a consumer may be known not to read one of its references)
RECURSIVE ReadReach(_, _)
ReadReach(S, k) == IF k = 0 THEN S ELSE ReadReach(S \cup UNION {DepsOf(c) \ IgnoredOf(c) : c \in S}, k - 1)
ReachesCycle(c) == \E d \in ReadReach({c}, NC) : d \in ReadReach(DepsOf(d) \ IgnoredOf(d), NC)
NeedsFailing(c) == \E d \in ReadReach({c}, NC) : d \in Fails

Init == /\ tid \in 1..Len(Traces) /\ l = 1 /\ verdict = "ok" /\ stack = <<>>
        /\ st = [c \in DOMAIN Traces[tid].deps |-> "new"]
        /\ val = [c \in DOMAIN Traces[tid].deps |-> ""]
        /\ reads = [c \in DOMAIN Traces[tid].deps |-> {}]
        /\ absent = {Traces[tid].late[i] : i \in 1..Len(Traces[tid].late)}       \* commands not yet added to the program

Same == UNCHANGED <<st, val, reads, stack, absent>>
Fail(clause) == verdict' = clause /\ Same
Pass == UNCHANGED verdict /\ Same
Top == stack[Len(stack)]
Pop == SubSeq(stack, 1, Len(stack) - 1)

ExecBegin(e) ==
    IF e.c \notin Cmds THEN Fail("Trace.UnknownCommand")
    ELSE IF st[e.c] = "finished" THEN Fail("C01.ExactlyOnce")
    ELSE IF st[e.c] = "running" THEN Fail("C14.Reentered")
    ELSE /\ st' = [st EXCEPT ![e.c] = "running"] /\ stack' = Append(stack, e.c)
         /\ reads' = [reads EXCEPT ![e.c] = {}] /\ UNCHANGED <<val, verdict, absent>>

\* d.result evaluated by the body of c's execute
Read(e) ==
    IF stack = <<>> \/ Top # e.c THEN Fail("C01.ReadOutsideExec")
    ELSE IF e.d \notin Cmds THEN Fail("Trace.UnknownCommand")
    ELSE IF st[e.d] # "finished" \/ val[e.d] # e.tok THEN Fail("C01.ReadUnfinishedOrStale")
    ELSE /\ reads' = [reads EXCEPT ![e.c] = @ \cup {e.d}] /\ UNCHANGED <<st, val, stack, verdict, absent>>

\* d.result evaluated while validating parameters (no frame requirement)
VRead(e) ==
    IF e.d \notin Cmds THEN Fail("Trace.UnknownCommand")
    ELSE IF st[e.d] # "finished" \/ val[e.d] # e.tok THEN Fail("C01.ReadUnfinishedOrStale")
    ELSE Pass

ExecEnd(e) ==
    IF stack = <<>> \/ Top # e.c THEN Fail("Trace.EndMismatch")
    ELSE IF T.strict /\ ~((DepsOf(e.c) \ IgnoredOf(e.c)) \subseteq reads[e.c]) THEN Fail("C01.DependencyNotRead")
    ELSE IF T.strict /\ ~(reads[e.c] \subseteq DepsOf(e.c)) THEN Fail("C01.ReadUnreferenced")
    ELSE /\ st' = [st EXCEPT ![e.c] = "finished"] /\ val' = [val EXCEPT ![e.c] = e.tok]
         /\ stack' = Pop /\ UNCHANGED <<reads, verdict, absent>>

ExecFail(e) ==
    IF stack = <<>> \/ Top # e.c THEN Fail("Trace.EndMismatch")
    ELSE /\ st' = [st EXCEPT ![e.c] = "new"] /\ stack' = Pop /\ UNCHANGED <<val, reads, verdict, absent>>

Call(e) == IF stack # <<>> THEN Fail("Trace.NestedCall") ELSE Pass

RetRun(e) ==
    IF stack # <<>> THEN Fail("Trace.Unbalanced")
    ELSE IF e.ok /\ HasCycle THEN Fail("C14.ReturnedOk")
    ELSE IF e.ok /\ \E c \in Cmds \ absent : st[c] # "finished" THEN Fail("C01.RunIncomplete")
    ELSE IF ~e.ok /\ e.cause = "RecursionError" THEN Fail("C14.StackOverflow")
    ELSE IF ~e.ok /\ e.cls = "RecursiveModelStructure" /\ ~HasCycle THEN Fail("C01.SpuriousRecursive")
    \* (a failing command that has not been added to the program yet cannot fail - or excuse - this run)
    ELSE IF ~e.ok /\ HasCycle /\ (Fails \ absent) = {} /\ e.cls # "RecursiveModelStructure" THEN Fail("C14.WrongError")
    ELSE IF ~e.ok /\ ~HasCycle /\ (Fails \ absent) = {} THEN Fail("C01.SpuriousFailure")
    ELSE IF e.ok /\ (Fails \ absent) # {} THEN Fail("C01.FailureSwallowed")
    ELSE Pass

RetResult(e) ==
    IF stack # <<>> THEN Fail("Trace.Unbalanced")
    ELSE IF e.ok /\ ReachesCycle(e.c) THEN Fail("C14.ReturnedOk")
    ELSE IF e.ok /\ (st[e.c] # "finished" \/ val[e.c] # e.tok) THEN Fail("C01.ResultStale")
    ELSE IF ~e.ok /\ e.cause = "RecursionError" THEN Fail("C14.StackOverflow")
    ELSE IF ~e.ok /\ e.cls = "RecursiveModelStructure" /\ ~ReachesCycle(e.c) THEN Fail("C01.SpuriousRecursive")
    ELSE IF ~e.ok /\ ReachesCycle(e.c) /\ Fails = {} /\ e.cls # "RecursiveModelStructure" THEN Fail("C14.WrongError")
    ELSE IF ~e.ok /\ ~ReachesCycle(e.c) /\ ~NeedsFailing(e.c) THEN Fail("C01.SpuriousFailure")
    ELSE IF e.ok /\ NeedsFailing(e.c) THEN Fail("C01.FailureSwallowed")
    ELSE Pass

Step == /\ l <= Len(Ev) /\ verdict = "ok" /\ l' = l + 1 /\ UNCHANGED tid
        /\ LET e == Ev[l] IN
           CASE e.ev = "exec_begin" -> ExecBegin(e)
             [] e.ev = "read" -> Read(e)
             [] e.ev = "vread" -> VRead(e)
             [] e.ev = "exec_end" -> ExecEnd(e)
             [] e.ev = "exec_fail" -> ExecFail(e)
             [] e.ev = "add" -> absent' = {} /\ UNCHANGED <<st, val, reads, stack, verdict>>
             [] e.ev = "call_run" -> Call(e)
             [] e.ev = "call_result" -> Call(e)
             [] e.ev = "ret_run" -> RetRun(e)
             [] e.ev = "ret_result" -> RetResult(e)
             [] OTHER -> Fail("Trace.UnknownEvent")
Next == Step
Spec == Init /\ [][Next]_vars

\* reporting: one VERDICT line per trace (invariants are evaluated once per distinct state)
Done == l = Len(Ev) + 1 \/ verdict # "ok"
Report == Done => PrintT(<<"VERDICT", T.id, verdict, l>>)
=============================================================================
