------------------------------- MODULE MPSyntax -------------------------------
(***************************************************************************)
(* The renderer state machine over MPSyntaxDefs: every behaviour is one    *)
(* concrete rendering (layout, comments, line breaks, trailing commas) of  *)
(* a program, with the true start line of every node; the invariants are   *)
(* the language-level statements of C10 and C11.                           *)
(***************************************************************************)
EXTENDS MPSyntaxDefs

\* ---------- the programs explored
CONSTANTS Progs,        \* "tiny" | "core" | "rich": which AST set Init draws from
          MaxGap,       \* at most this many layout items between two tokens
          LayoutKinds   \* subset of Layouts the renderer may use (small for exhaustive runs, all for simulation)
Scalars == {<<"int", "i1">>, <<"float", "f1">>, <<"str", "s1", "dq">>, <<"str", "s2", "sq">>, <<"str", "w1", "bare">>, <<"bool", "True">>,
            <<"str", "w3", "bare">>,
            <<"str", "sm", "dq">>}        \* w3: unquoted strings containing a colon, only ever whole argument values
ValsCore == Scalars \cup {<<"list", <<>>>>, <<"list", <<<<"int", "i2">>, <<"str", "w2", "bare">>>>>>,
                          <<"list", <<<<"list", <<<<"float", "f2">>>>>>, <<"list", <<>>>>, <<"str", "s3", "dq">>>>>>,
                          <<"tuple", <<<<<<"str", "k1", "bare">>, <<"str", "s1", "dq">>>>>>>>,
                          <<"tuple", <<<<<<"str", "k1", "dq">>, <<"str", "w1", "bare">>>>, <<<<"str", "k2", "bare">>, <<"int", "i1">>>>>>>>,
                          <<"tuple", <<<<<<"str", "k2", "bare">>, <<"bool", "True">>>>, <<<<"bool", "False">>, <<"str", "w2", "bare">>>>>>>>}
ValsRich == ValsCore \cup {<<"list", <<<<"list", <<<<"list", <<<<"int", "i1">>, <<"int", "i2">>>>>>, <<"str", "w1", "bare">>>>>>>>>>,
                           <<"list", <<<<"bool", "False">>, <<"float", "f1">>, <<"int", "i1">>, <<"str", "s2", "sq">>>>>>}
ProgSet ==
    CASE Progs = "tiny" -> {<< <<"A", "Cmd", << <<"P", v>> >> >> >> : v \in Scalars}
      [] Progs = "core" -> {<< <<"A", "Cmd", << <<"P", v1>>, <<"Q", v2>> >> >>, <<"B", "Other", <<>>>> >> : v1 \in ValsCore, v2 \in Scalars}
                           \cup {<< <<"", "READ", << <<"P", v1>> >> >>, <<"B", "Other", << <<"R", v2>> >> >> >> : v1 \in Scalars, v2 \in ValsCore}
      [] Progs = "rich" -> {<< <<"A", "Cmd", << <<"P", v1>>, <<"Q", v2>>, <<"R", v3>> >> >>, <<"B", "Other", << <<"P", v3>> >> >>, <<"C", "Cmd", <<>>>> >> :
                                v1 \in ValsRich, v2 \in ValsRich, v3 \in ValsRich}

\* ---------- the renderer
VARIABLES prog, tc, toks, pos, out, line, gap, starts
vars == <<prog, tc, toks, pos, out, line, gap, starts>>
Layouts == {"SP", "TAB", "NL", "CRNL", "CR", "CMT", "BL"}          \* CR: a lone carriage return (old Mac line ending) is a line break too
NLs(k) == CASE k \in {"NL", "CRNL", "CR", "CMT"} -> 1 [] k = "BL" -> 2 [] OTHER -> 0
\* "sm" is a quoted string written over two lines (a raw line break between the quotes): the token itself moves the line
TokNLs(t) == IF t[1] = "QSTR" /\ t[2][1] = "sm" THEN 1 ELSE 0

Init == /\ prog \in ProgSet /\ tc \in BOOLEAN /\ toks = Flat(prog, tc)
        /\ pos = 1 /\ out = <<>> /\ line = 1 /\ gap = 0 /\ starts = <<>>
Emit == /\ pos <= Len(toks)
        /\ out' = Append(out, <<"T", pos>>) /\ pos' = pos + 1 /\ gap' = 0
        /\ starts' = starts \o [k \in 1..Len(toks[pos][3]) |-> <<toks[pos][3][k], line>>]
        /\ line' = line + TokNLs(toks[pos])
        /\ UNCHANGED <<prog, tc, toks>>
Layout(k) == /\ gap < MaxGap /\ (pos <= Len(toks) \/ k \in {"NL", "CMT", "SP"})
             /\ out' = Append(out, <<"L", k>>) /\ gap' = gap + 1 /\ line' = line + NLs(k)
             /\ UNCHANGED <<prog, tc, toks, pos, starts>>
Next == Emit \/ \E k \in LayoutKinds : Layout(k)
Spec == Init /\ [][Next]_vars
Done == pos > Len(toks)

\* ---------- properties of the language, checked on every rendering
TokensOf(o) == LET ix == SelectSeq(o, LAMBDA it : it[1] = "T") IN [k \in 1..Len(ix) |-> toks[ix[k][2]]]
\* C10: layout, comments, trailing commas and the choice of quoting do not change what is denoted
RoundTrip == Done => LET r == Denote(TokensOf(out)) IN r.ok /\ r.ast = prog
\* C11: a node starts on line 1 + (line breaks written before its first token); CRLF is one line break
RECURSIVE CountNL(_)
CountNL(o) == IF o = <<>> THEN 0 ELSE (IF Head(o)[1] = "L" THEN NLs(Head(o)[2]) ELSE TokNLs(toks[Head(o)[2]])) + CountNL(Tail(o))
LinesTrue == \A s \in 1..Len(starts) :
                LET path == starts[s][1]
                    k == CHOOSE k \in 1..Len(toks) : \E m \in 1..Len(toks[k][3]) : toks[k][3][m] = path
                    at == CHOOSE q \in 1..Len(out) : out[q] = <<"T", k>>
                IN starts[s][2] = 1 + CountNL(SubSeq(out, 1, at - 1))
\* C10: malformed text is rejected (for the corruption classes above)
CorruptionRejected == Done => \A c \in Corruptions(toks) : ~Recognize(c[3])
VersionByText == Version(prog) = (IF \E i \in 1..Len(prog) : Len(FlatCmd(prog[i], i, tc)) >= 2 /\ FlatCmd(prog[i], i, tc)[2][1] = "LP" THEN 2 ELSE 3)

\* printed for the replay harness when a rendering is complete
Report == Done => PrintT(<<"RENDER", prog, tc, [k \in 1..Len(toks) |-> <<toks[k][1], toks[k][2]>>], out, starts>>)
=============================================================================
