-------------------------------- MODULE NetcdfIO --------------------------------
(***************************************************************************)
(* NetCDF reading and writing of the EEMS NetCDF library (C18).            *)
(* A grid is <<shape, kind, cells>>: cells in C order, exact rationals      *)
(* (Rat) or MV (missing).  Writing a set of results creates one variable   *)
(* per result on the template's dimensions; every variable is missing      *)
(* where ANY written result is missing.  Reading applies the optional      *)
(* parameters documented in docs/user/lib-eems-netcdf.rst.                 *)
(*   Read(grid, mv, dt) == <<"ok", kind, cells>> | <<"err", class>>        *)
(*   mv: <<>> (not given) or <<value>>;  dt: "" (not given), "Float",      *)
(*   "Integer", "Positive Float", "Positive Integer", "Fuzzy"              *)
(***************************************************************************)
EXTENDS Rat, FiniteSets, TLC

Shape(g) == g[1]
Kind(g) == g[2]
Cells(g) == g[3]
ValidCells(g) == SelectSeq(Cells(g), LAMBDA c : ~IsMV(c))
\* round to nearest (ties are not generated)
Floor(a) == a[1] \div a[2]
Round(a) == IF IsMV(a) THEN MV ELSE LET f == Floor(a) IN IF RLt(RSub(a, R(f)), Q(1, 2)) THEN R(f) ELSE R(f + 1)
FuzzyPad == Q(2, 100)
Read(g, mv, dt) ==
    LET masked == [k \in 1..Len(Cells(g)) |-> IsMV(Cells(g)[k]) \/ (mv # <<>> /\ Cells(g)[k] = mv[1])]
        v == ValidCells(g)
        isInt == dt \in {"Integer", "Positive Integer"}
        conv(c) == IF isInt THEN Round(c) ELSE c IN
    IF dt \in {"Positive Float", "Positive Integer"} /\ v # <<>> /\ RLt(MinSeq(v), R(0)) THEN <<"err", "InvalidPositiveData">>
    ELSE IF dt = "Fuzzy" /\ v # <<>> /\ (RLt(RAdd(R(1), FuzzyPad), MaxSeq(v)) \/ RLt(MinSeq(v), RSub(R(-1), FuzzyPad))) THEN <<"err", "InvalidFuzzyData">>
    ELSE <<"ok", IF isInt THEN "i" ELSE "f",
           [k \in 1..Len(Cells(g)) |-> IF masked[k] THEN MV
                                       ELSE IF dt = "Fuzzy" THEN RClamp(Cells(g)[k], R(-1), R(1)) ELSE conv(Cells(g)[k])]>>
\* writing results together: the union mask is applied to every variable
UnionMask(gs) == [k \in 1..Len(Cells(gs[1])) |-> \E i \in 1..Len(gs) : IsMV(Cells(gs[i])[k])]
Written(gs, i) == <<Shape(gs[i]), Kind(gs[i]), [k \in 1..Len(Cells(gs[i])) |-> IF UnionMask(gs)[k] THEN MV ELSE Cells(gs[i])[k]]>>

\* ---------- cases
CONSTANTS Mode      \* "read": one grid x options | "write": sets of results written together and read back
\* 203/200: inside the padding of the Fuzzy check (1% of the range [-1, +1] = 0.02) but beyond half of it
FloatVals == {Q(-5, 2), Q(-203, 200), Q(-101, 100), Q(-1, 2), R(0), Q(1, 2), R(1), Q(101, 100), Q(203, 200), Q(13, 5), Q(7, 5)}
IntVals == {R(-2), R(0), R(1), R(3)}
Shapes == {<<3>>, <<2, 2>>, <<1, 3>>}
Size(s) == IF Len(s) = 1 THEN s[1] ELSE s[1] * s[2]
GridsOf(s, kind, vals) == {<<s, kind, c>> : c \in [1..Size(s) -> vals \cup {MV}]}
\* no value has a fractional part of exactly 1/2 (how ties are rounded is not stated)
\* 203/200 and -203/200 lie inside the padding of the Fuzzy check (0.02) but beyond half of it
\* (200001/200 = 1000.005 lies within 1e-5 (relative) of the missing value 1000 used below: only cells EQUAL to MissingValue are masked)
ReadGrids == UNION {GridsOf(s, "f", {Q(-12, 5), Q(-2, 5), Q(3, 5), Q(101, 100), Q(203, 200), Q(13, 5)} \cup (IF s = <<3>> THEN {Q(200001, 200)} ELSE {})) : s \in {<<3>>, <<1, 3>>}}
             \cup GridsOf(<<2, 2>>, "f", {Q(-203, 200), Q(-101, 100), R(0), R(1), Q(7, 5)}) \cup GridsOf(<<3>>, "i", IntVals)
DTs == {"", "Float", "Integer", "Positive Float", "Positive Integer", "Fuzzy"}
VARIABLES grids, mv, dt, out, done
vars == <<grids, mv, dt, out, done>>
Init == /\ IF Mode = "read"
           THEN /\ \E g \in ReadGrids : grids = <<g>>
                /\ dt \in DTs /\ mv \in {<<>>, <<Q(3, 5)>>, <<R(0)>>, <<R(1)>>, <<R(1000)>>}
                /\ (mv # <<>> => dt \in {"", "Float", "Integer"})              \* the order of missing-value masking and type checks is not documented
                /\ (mv # <<>> /\ dt = "Integer" => Kind(grids[1]) = "i" /\ IsInt(mv[1]))   \* nor whether the comparison is made before or after rounding
           ELSE /\ \E s \in Shapes, k1 \in {"f", "i"}, k2 \in {"f", "i"} :
                     \E a \in GridsOf(s, k1, IF k1 = "f" THEN {Q(-12, 5), Q(3, 5)} ELSE {R(-2), R(3)}),
                        b \in GridsOf(s, k2, IF k2 = "f" THEN {R(0), Q(13, 5)} ELSE {R(1)}) :
                         grids = <<a, b>>
                /\ dt = "" /\ mv = <<>>
        /\ out = <<>> /\ done = FALSE
Apply == /\ ~done /\ done' = TRUE /\ UNCHANGED <<grids, mv, dt>>
         /\ out' = IF Mode = "read" THEN <<Read(grids[1], mv, dt)>>
                   ELSE [i \in 1..Len(grids) |-> Read(Written(grids, i), <<>>, IF Kind(grids[i]) = "i" THEN "Integer" ELSE "")]
Next == Apply
\* ---------- laws
ShapeKept == done => \A i \in 1..Len(out) : out[i][1] = "ok" => Len(out[i][3]) = Len(Cells(grids[IF Mode = "read" THEN 1 ELSE i]))
DefaultIsFloat == (done /\ Mode = "read" /\ dt = "" /\ out[1][1] = "ok") => out[1][2] = "f"
MissingMasked == (done /\ Mode = "read" /\ out[1][1] = "ok") =>
    \A k \in 1..Len(out[1][3]) : IsMV(out[1][3][k]) <=> (IsMV(Cells(grids[1])[k]) \/ (mv # <<>> /\ Cells(grids[1])[k] = mv[1]))
FuzzyInRange == (done /\ Mode = "read" /\ dt = "Fuzzy" /\ out[1][1] = "ok") => \A k \in 1..Len(out[1][3]) : IsMV(out[1][3][k]) \/ (RLe(R(-1), out[1][3][k]) /\ RLe(out[1][3][k], R(1)))
PositiveChecked == (done /\ Mode = "read" /\ dt \in {"Positive Float", "Positive Integer"} /\ out[1][1] = "ok") => \A k \in 1..Len(out[1][3]) : IsMV(out[1][3][k]) \/ RLe(R(0), out[1][3][k])
RoundTripUnionMask == (done /\ Mode = "write") => \A i \in 1..Len(grids) :
    /\ out[i][1] = "ok" /\ out[i][2] = Kind(grids[i])
    /\ \A k \in 1..Len(Cells(grids[i])) : out[i][3][k] = (IF \E j \in 1..Len(grids) : IsMV(Cells(grids[j])[k]) THEN MV ELSE Cells(grids[i])[k])
=============================================================================
