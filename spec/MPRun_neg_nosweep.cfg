CONSTANTS N = 3 Memo = TRUE CycleGuard = TRUE ResetOnUnwind = TRUE Sweep = FALSE LeafKey = "mixed" MaxStack = 5 MaxCalls = 1 MaxFail = 0 OnlyDags = FALSE OnlyCyclic = FALSE
INIT Init
NEXT Next
CHECK_DEADLOCK FALSE
INVARIANT ExactlyOnce
INVARIANT RunCompletes
INVARIANT TermCorrect
INVARIANT CyclicRejected
INVARIANT AcyclicAccepted
INVARIANT NoSpuriousRecursive
INVARIANT StackBounded
INVARIANT FailureReported
INVARIANT NoRunningWhenIdle
PROPERTY NoReexec
PROPERTY Quiescent
PROPERTY FinishedStays
