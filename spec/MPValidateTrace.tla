--------------------------- MODULE MPValidateTrace ---------------------------
(***************************************************************************)
(* Validation of recorded load+run traces against the declarative          *)
(* well-formedness definition MPValidateDefs.Faults (C12), the error-type  *)
(* discipline (C13) and the error locations (C11).                         *)
(* record == [id, prog, ev]; events:                                       *)
(*   [ev |-> "load", ok, cls, mp, syn, at, what]   Program.from_source     *)
(*   [ev |-> "exec_begin", c, kw]                                              *)
(*   [ev |-> "ret_run", ok, cls, mp, syn, at, what]                         *)
(*   [ev |-> "files", n]      files created in the working directory       *)
(* `at` = <<command index, parameter name or "">> located from the error's *)
(* lineno through the rendering's line table (<<0, "">>: no usable line).  *)
(***************************************************************************)
EXTENDS MPValidateDefs, Json, IOUtils

Traces == ndJsonDeserialize(IOEnv.TRACE_FILE)
VARIABLES tid, l, verdict, nbegin
T == Traces[tid]
Ev == T.ev
F == Faults(T.prog)

\* a MissingParameters error names exactly the required parameters that are absent
MissingOf(i) == Required(D(CName(T.prog[i]))) \ ArgNames(T.prog[i])
MatchesFault(e, f) == /\ \E m \in 1..Len(f[1]) : f[1][m] = e.cls
                      /\ (f[4] = e.what \/ f[4] = "?" \/ f[4] = "")
                      /\ (e.cls = "MissingParameters" => {e.params[k] : k \in 1..Len(e.params)} = MissingOf(f[2]))
AtOk(e) == \E f \in F : MatchesFault(e, f) /\ e.at[1] = f[2] /\ (f[3] = "" \/ e.at[2] = f[3])

\* an exception that rejects the program before execution
Rejection(e) ==
    IF ~e.mp /\ ~e.syn THEN "C13.EscapedClass"
    ELSE IF F = {} THEN "C12.RejectedWellFormed"
    ELSE IF ~\E f \in F : \E m \in 1..Len(f[1]) : f[1][m] = e.cls THEN "C12.WrongError"
    ELSE IF ~\E f \in F : MatchesFault(e, f) THEN "C12.WrongOffender"
    ELSE IF nbegin > 0 THEN "C12.ExecBeforeReject"
    ELSE IF ~T.nolines /\ ~AtOk(e) THEN "C11.ErrorLine"      \* (programs assembled through the API carry no argument lines)
    ELSE "ok"

\* execute() of an accepted command receives exactly the arguments that were written (extra ones included where the command allows them)
KwOk(e) == \A i \in 1..Len(T.prog) : Res(T.prog[i]) = e.c => {e.kw[k] : k \in 1..Len(e.kw)} = ArgNames(T.prog[i])

Judge(e) ==
    CASE e.ev = "load" -> IF e.ok THEN "ok" ELSE Rejection(e)
      [] e.ev = "exec_begin" -> IF F # {} THEN "C12.ExecBeforeReject" ELSE IF ~KwOk(e) THEN "C12.ExecuteArguments" ELSE "ok"
      [] e.ev = "ret_run" ->
            \* C14: a well-formed model whose references contain a cycle ends in the recursive-model error, whatever commands take part
            IF F = {} /\ Cyclic(T.prog) THEN (IF e.ok THEN "C14.ReturnedOk" ELSE IF e.cls # "RecursiveModelStructure" THEN "C14.WrongError" ELSE "ok")
            ELSE IF e.ok THEN (IF F # {} THEN "C12.AcceptedIllFormed" ELSE "ok")
            ELSE IF nbegin > 0 /\ F = {} THEN (IF ~e.mp /\ ~e.syn THEN "C13.EscapedClass" ELSE "ok")     \* run-time (semantic) failure of a well-formed model
            ELSE Rejection(e)
      [] e.ev = "files" -> IF F # {} /\ e.n > 0 THEN "C12.FileWritten" ELSE "ok"
      [] OTHER -> "Trace.UnknownEvent"

Init == tid \in 1..Len(Traces) /\ l = 1 /\ verdict = "ok" /\ nbegin = 0
Next == /\ l <= Len(Ev) /\ verdict = "ok" /\ l' = l + 1 /\ UNCHANGED tid
        /\ verdict' = Judge(Ev[l])
        /\ nbegin' = IF Ev[l].ev = "exec_begin" THEN nbegin + 1 ELSE nbegin
Report == (l = Len(Ev) + 1 \/ verdict # "ok") => PrintT(<<"VERDICT", T.id, verdict, l>>)
=============================================================================
