------------------------------ MODULE MPHeapTrace ------------------------------
(***************************************************************************)
(* Validation of recorded executions (C09).  record == [id, ev]; an event  *)
(*   [c, kind, out, objs]                                                  *)
(* is one execute(): c the consumer's name, kind its command class, out    *)
(* the identity of the object it returned, objs a sequence of              *)
(* <<object identity, shape digest, dtype digest, visible digest>> for     *)
(* every result object alive AFTER the execution (the new one included).   *)
(* The spec remembers the digests of every object it has seen and demands  *)
(* that they never change.                                                 *)
(***************************************************************************)
EXTENDS Integers, Sequences, FiniteSets, TLC, Json, IOUtils
Traces == ndJsonDeserialize(IOEnv.TRACE_FILE)
VARIABLES tid, l, known, verdict
T == Traces[tid]
Find(o) == CHOOSE k \in 1..Len(known) : known[k][1] = o
Seen(o) == \E k \in 1..Len(known) : known[k][1] = o
Judge(e) ==
    LET bad == {k \in 1..Len(e.objs) : Seen(e.objs[k][1]) /\ known[Find(e.objs[k][1])] # e.objs[k]} IN
    IF bad = {} THEN "ok"
    ELSE LET k == CHOOSE k \in bad : TRUE old == known[Find(e.objs[k][1])] new == e.objs[k] IN
         IF old[2] # new[2] THEN "C09.ShapeChanged" ELSE IF old[3] # new[3] THEN "C09.DtypeChanged" ELSE "C09.VisibleChanged"
Init == tid \in 1..Len(Traces) /\ l = 1 /\ known = <<>> /\ verdict = "ok"
Next == /\ l <= Len(T.ev) /\ verdict = "ok" /\ l' = l + 1 /\ UNCHANGED tid
        /\ verdict' = Judge(T.ev[l])
        /\ known' = known \o SelectSeq(T.ev[l].objs, LAMBDA x : ~Seen(x[1]))
Report == (l = Len(T.ev) + 1 \/ verdict # "ok") => PrintT(<<"VERDICT", T.id, verdict, l>>)
=============================================================================
