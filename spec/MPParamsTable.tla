---------------------------- MODULE MPParamsTable ----------------------------------
(***************************************************************************)
(* Parameter cleaning (mpilot/params.py): the decision table               *)
(*     Clean(parameter configuration, raw value kind, environment)         *)
(* transcribed from the documented parameter types, and the laws C20       *)
(* states about it (typed, idempotent, parameter errors only).             *)
(*                                                                         *)
(* Everything is positional (sequences) so that TLC's states and the       *)
(* recorded observations share one shape.                                  *)
(*   p   == <<"String">> | <<"Number">> | <<"Boolean">> | <<"Path", m>>    *)
(*          | <<"Result", want, fz>> | <<"List", p>> | <<"Tuple">>         *)
(*          | <<"Data">> | <<"DataType">>                                  *)
(*   v   == <<"int", "bit"|"other">> | <<"float">> | <<"bool">>            *)
(*          | <<"str", form>> | <<"list", <<v..>>>> | <<"pytuple", <<v..>>>>*)
(*          | <<"dict", "strs"|"mixed"|"empty">> | <<"cmd">> | <<"type">>   *)
(*          | <<"array">>                                                  *)
(*   env == <<wd, <<state, outkind, fuzziness>>>>   the working directory  *)
(*          and the one producer command "resname_ok"/<<"cmd">> refer to   *)
(*   result == <<"ok", v'>> | <<"err", <<acceptable classes>>>>            *)
(*             | <<"unspec", <<>>>>  (documented type or parameter error)  *)
(***************************************************************************)
EXTENDS Integers, Sequences, FiniteSets, TLC

Ok(v) == <<"ok", v>>
Err(cs) == <<"err", cs>>
Unspec == <<"unspec", <<>>>>
PNV == <<"ParameterNotValid">>
ParameterErrors == {"ParameterNotValid", "PathDoesNotExist", "InvalidRelativePath", "ResultDoesNotExist",
                    "ResultTypeNotValid", "ResultNotFuzzy", "ResultIsFuzzy"}

StrForms == {"intstr", "floatstr", "expstr", "boolword", "bit", "word", "empty", "typename",
             "resname_ok", "resname_dangling", "abs_exists", "abs_missing", "rel_exists", "rel_missing"}
PathForms == {"abs_exists", "abs_missing", "rel_exists", "rel_missing", "abs_joined", "abs_joined_missing", "rel_joined"}

\* text of a scalar, as a string form
StrOf(v) == CASE v[1] = "int" -> <<"str", IF v[2] = "bit" THEN "bit" ELSE "intstr">>
              [] v[1] = "float" -> <<"str", "floatstr">>
              [] v[1] = "bool" -> <<"str", "boolword">>
              [] OTHER -> v

\* does a producer's declared / actual output satisfy a wanted output kind
Accepts(want, out) == CASE want = "any" -> TRUE
                        [] want = "data" -> out = "data"
                        [] want = "number" -> out = "number"
                        [] want = "string" -> out \in {"string", "number", "path"}
                        [] want = "bool" -> out = "bool"
                        [] OTHER -> FALSE

RECURSIVE Clean(_, _, _)
CleanList(e, items, env) ==
    LET rs == [i \in 1..Len(items) |-> Clean(e, items[i], env)] IN
    IF \E i \in 1..Len(rs) : rs[i][1] = "err"
    THEN LET k == CHOOSE i \in 1..Len(rs) : rs[i][1] = "err" /\ \A j \in 1..(i - 1) : rs[j][1] # "err" IN
         IF \E j \in 1..(k - 1) : rs[j][1] = "unspec" THEN Unspec ELSE rs[k]
    ELSE IF \E i \in 1..Len(rs) : rs[i][1] = "unspec" THEN Unspec
    ELSE Ok(<<"list", [i \in 1..Len(rs) |-> rs[i][2]]>>)

Clean(p, v, env) ==
    LET wd == env[1] prod == env[2] IN
    CASE p[1] = "String" ->
            IF v[1] \in {"int", "float", "bool"} THEN Ok(StrOf(v))
            ELSE IF v[1] = "str" THEN Ok(v) ELSE Unspec
      [] p[1] = "Number" ->
            IF v[1] \in {"int", "float"} THEN Ok(v)
            ELSE IF v[1] = "bool" \/ v[1] = "array" THEN Unspec
            ELSE IF v[1] = "str" THEN
                 (CASE v[2] = "intstr" -> Ok(<<"int", "other">>)
                    [] v[2] = "bit" -> Ok(<<"int", "bit">>)
                    [] v[2] \in {"floatstr", "expstr"} -> Ok(<<"float">>)
                    [] OTHER -> Err(PNV))
            ELSE Err(PNV)
      [] p[1] = "Boolean" ->
            IF v[1] = "bool" THEN Ok(v)
            ELSE IF v = <<"int", "bit">> THEN Ok(<<"bool">>)
            ELSE IF v[1] \in {"int", "float", "array"} THEN Unspec
            ELSE IF v[1] = "str" THEN
                 (CASE v[2] \in {"boolword", "bit"} -> Ok(<<"bool">>)
                    [] v[2] = "intstr" -> Unspec
                    [] OTHER -> Err(PNV))
            ELSE Err(PNV)
      [] p[1] = "Path" ->
            IF v[1] # "str" THEN Unspec
            ELSE (CASE v[2] \in {"abs_exists", "abs_joined"} -> Ok(v)
                    [] v[2] \in {"abs_missing", "abs_joined_missing"} -> IF p[2] = "must" THEN Err(<<"PathDoesNotExist">>) ELSE Ok(v)
                    [] v[2] = "rel_exists" ->
                          IF wd = "none" THEN Err(<<"InvalidRelativePath">>)
                          ELSE IF wd = "empty" THEN Ok(v)          \* working directory "" (the command-line tool run inside the model's folder): the path as given
                          ELSE Ok(<<"str", IF wd = "abs" THEN "abs_joined" ELSE "rel_joined">>)
                    [] v[2] = "empty" -> Unspec                 \* "" joins to the working directory itself
                    [] v[2] = "rel_joined" -> Unspec            \* joined again: idempotence is not promised under a relative working directory
                    [] OTHER ->                                 \* any other text is a relative path that does not exist
                          IF wd = "none" THEN Err(<<"InvalidRelativePath">>)
                          ELSE IF p[2] = "must" THEN Err(<<"PathDoesNotExist">>)
                          ELSE IF wd = "empty" THEN Ok(v)
                          ELSE Ok(<<"str", IF wd = "abs" THEN "abs_joined_missing" ELSE "rel_joined">>))
      [] p[1] = "Result" ->
            IF v = <<"cmd">> \/ v = <<"str", "resname_ok">> THEN
                 IF p[3] = "fuzzy" /\ prod[3] # "fuzzy" THEN Err(<<"ResultNotFuzzy">>)
                 ELSE IF p[3] = "nonfuzzy" /\ prod[3] = "fuzzy" THEN Err(<<"ResultIsFuzzy">>)
                 ELSE IF Accepts(p[2], prod[2]) THEN Ok(<<"cmd">>)
                 ELSE IF prod[2] = "none" /\ prod[1] = "new" THEN Unspec           \* producer declares no output: cannot be judged statically
                 ELSE IF prod[1] = "finished" /\ (p[2] = "string" \/ (p[2] = "number" /\ prod[2] = "bool") \/ (p[2] = "bool" /\ prod[2] = "number"))
                      THEN Unspec                                                  \* judged on the actual value, which these cleaners accept
                 ELSE Err(<<"ResultTypeNotValid", "ParameterNotValid">>)
            ELSE IF v[1] = "str" THEN Err(<<"ResultDoesNotExist">>)
            ELSE Err(PNV)
      [] p[1] = "List" ->
            IF v[1] \in {"list", "pytuple"} THEN CleanList(p[2], v[2], env) ELSE Err(PNV)
      [] p[1] = "Tuple" ->
            IF v[1] = "dict" THEN Ok(<<"dict", IF v[2] = "empty" THEN "empty" ELSE "strs">>)
            ELSE IF v = <<"list", <<>>>> THEN Ok(<<"dict", "empty">>)
            ELSE IF v[1] = "array" THEN Unspec
            ELSE Err(PNV)
      [] p[1] = "Data" -> IF v[1] = "array" THEN Ok(v) ELSE Err(PNV)
      [] p[1] = "DataType" ->
            IF v = <<"str", "typename">> \/ v = <<"type">> THEN Ok(<<"type">>)
            ELSE IF v[1] = "array" THEN Unspec ELSE Err(PNV)

\* idempotence is promised except for paths under a relative working directory
IdemApplies(p, env) == ~(env[1] = "rel" /\ (p[1] = "Path" \/ (p[1] = "List" /\ p[2][1] = "Path")))
=============================================================================
