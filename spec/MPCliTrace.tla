------------------------------ MODULE MPCliTrace ------------------------------
(***************************************************************************)
(* Validation of recorded CLI runs.  record ==                             *)
(*  [id, outcome, lineno, lineok, nlines, exit, banner, message, arrow, arrowtext, traceback] *)
(*  lineok: the error's line (if any) lies within the command known to be at fault   *)
(*  outcome: what from_source+run did through the API on the same file     *)
(*  ("ok" | "mpilot" | "syntax" | "other"), lineno its line (0 = none);     *)
(*  exit: the tool's exit status; banner/message: stderr contains the      *)
(*  "ERROR:" banner / the text of the error; arrow: line marked with "-->"  *)
(*  (0 none); arrowtext: the marked text equals that source line.          *)
(***************************************************************************)
EXTENDS Integers, Sequences, TLC, Json, IOUtils
Traces == ndJsonDeserialize(IOEnv.TRACE_FILE)
VARIABLES tid, verdict
T == Traces[tid]
Judge(t) ==
    IF t.outcome = "mpilot" /\ t.traceback THEN "C13.CliCrashed"
    ELSE IF t.outcome = "mpilot" /\ t.exit = 0 THEN "C13.CliExitZero"
    ELSE IF t.outcome = "mpilot" /\ ~(t.banner /\ t.message) THEN "C13.CliNoMessage"
    ELSE IF t.outcome = "mpilot" /\ t.lineno > 0 /\ ~t.lineok THEN "C11.RuntimeErrorLine"          \* a line outside the offending command
    ELSE IF t.outcome = "mpilot" /\ t.lineno > 0 /\ t.lineno <= t.nlines /\ (t.arrow # t.lineno \/ ~t.arrowtext) THEN "C11.CliContextLine"
    ELSE IF t.outcome = "ok" /\ t.exit # 0 THEN "C13.CliFailedOnSuccess"
    ELSE "ok"
Init == tid \in 1..Len(Traces) /\ verdict = "pending"
Next == verdict = "pending" /\ verdict' = Judge(T) /\ UNCHANGED tid
Report == verdict # "pending" => PrintT(<<"VERDICT", T.id, verdict>>)
=============================================================================
