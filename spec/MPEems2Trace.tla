----------------------------- MODULE MPEems2Trace -----------------------------
(* record == [id, v2, img, same]:  v2 the EEMS 2.0 file (abstract), img the structure the real loader produced for the *)
(* 2.0 text (<<result, command, <<argument names>>>> per command, or <<"err", class>>), same: the real loader produced   *)
(* the same program (cleaned values, results after run) for the 2.0 text and for the rendered image Convert(v2).        *)
EXTENDS MPEems2, Json, IOUtils
Traces == ndJsonDeserialize(IOEnv.TRACE_FILE)
VARIABLES tid, verdict
T == Traces[tid]
Shape(prog) == [i \in 1..Len(prog) |-> <<Res(prog[i]), CName(prog[i]), [k \in 1..Len(Args(prog[i])) |-> Args(prog[i])[k][1]]>>]
Judge(t) == IF t.img[1] = "err" THEN (IF t.same THEN "ok" ELSE "C16.V2FailsImageLoads")
            ELSE IF t.img[2] # Shape(Convert(t.v2)) THEN "C16.LoadMismatch"
            ELSE IF ~t.same THEN "C16.NotEquivalent" ELSE "ok"
TInit == tid \in 1..Len(Traces) /\ verdict = "pending" /\ v2 = <<>> /\ image = <<>> /\ done = TRUE
TNext == verdict = "pending" /\ verdict' = Judge(T) /\ UNCHANGED <<tid, v2, image, done>>
TReport == verdict # "pending" => PrintT(<<"VERDICT", T.id, verdict>>)
=============================================================================
