--------------------------- MODULE MPSerializeTrace ---------------------------
(* record == [id, mode, toks, reparsed, same, sameresults, filesame] (filesame: to_file by path and by file object left exactly to_string() behind): the real to_string output lexed back by the real parser          *)
(* (`reparsed`: <<"ok", abstract program>> | <<"err", class>>) must denote the program that was serialised, and the reloaded  *)
(* program must have equal cleaned values (`same`) and equal results after run (`sameresults`).                              *)
EXTENDS MPSyntaxDefs, Json, IOUtils
Traces == ndJsonDeserialize(IOEnv.TRACE_FILE)
VARIABLES tid, verdict
T == Traces[tid]
Judge(t) == IF t.reparsed[1] = "err" THEN "C15.DoesNotLoad"
            ELSE IF ~t.same THEN "C15.ValuesDiffer"
            ELSE IF ~t.sameresults THEN "C15.ResultsDiffer"
            ELSE IF ~t.filesame THEN "C15.FileDiffers" ELSE "ok"
TInit == tid \in 1..Len(Traces) /\ verdict = "pending"
TNext == verdict = "pending" /\ verdict' = Judge(T) /\ UNCHANGED tid
TReport == verdict # "pending" => PrintT(<<"VERDICT", T.id, verdict>>)
=============================================================================
