-------------------------------- MODULE MPHeap --------------------------------
(***************************************************************************)
(* Result objects and aliasing (C09).  A finished command's result is an   *)
(* array object shared by reference with every consumer.  An object has a  *)
(* VISIBLE part (shape, element type, mask, unmasked values: an abstract   *)
(* version number here), a HIDDEN part (numbers beneath the mask) and the  *)
(* fact whether all visible values lie in [-1, 1].                         *)
(* Consumer kinds, as the library's execute() bodies are written:          *)
(*   OutOfPlace      a - b : a fresh object                                *)
(*   CopyThenInPlace arrays[0].copy(); result += ... : in-place updates of *)
(*                   a private copy (of the first input itself when        *)
(*                   CopyBeforeAccumulate = FALSE)                         *)
(*   AliasReturn     reduce() over one input returns that very object      *)
(*   AliasThenClamp  FuzzyOr / FuzzyAnd over one input: the in-place clamp *)
(*                   runs on the producer's own object (only fuzzy-tagged  *)
(*                   producers are admitted)                               *)
(*   ClampFresh      fresh object, then clamp                              *)
(* The clamp rewrites visible values iff some lie outside the range, and   *)
(* always may rewrite the hidden part.  Immutability of shared results     *)
(* therefore rests on: every fuzzy-tagged producer returns an in-range     *)
(* object (C04) - switch FuzzyProducersClamp.                              *)
(***************************************************************************)
EXTENDS Integers, Sequences, FiniteSets, TLC
CONSTANTS MaxObj, MaxHist, CopyBeforeAccumulate, FuzzyProducersClamp
Obj == 1..MaxObj
Kinds == {"OutOfPlace", "CopyThenInPlace", "AliasReturn", "AliasThenClamp", "ClampFresh"}
VARIABLES nobj,       \* objects 1..nobj exist
          vis,        \* visible version of each object
          hid,        \* hidden version
          inr,        \* all visible values in [-1, 1]
          fuzzy,      \* produced by a fuzzy-tagged command
          results,    \* sequence of objects: result k of the finished commands (several may share one object)
          hist
vars == <<nobj, vis, hid, inr, fuzzy, results, hist>>
Init == /\ nobj = 0 /\ vis = [o \in Obj |-> 0] /\ hid = [o \in Obj |-> 0] /\ inr = [o \in Obj |-> FALSE] /\ fuzzy = [o \in Obj |-> FALSE]
        /\ results = <<>> /\ hist = <<>>
New == nobj + 1
\* a reader: arbitrary data
Read(inrange) == /\ nobj < MaxObj /\ Len(hist) < MaxHist /\ nobj' = New
                 /\ inr' = [inr EXCEPT ![New] = inrange] /\ fuzzy' = [fuzzy EXCEPT ![New] = FALSE]
                 /\ results' = Append(results, New) /\ hist' = Append(hist, <<"Read", 0>>) /\ UNCHANGED <<vis, hid>>
\* a fuzzy-tagged producer from any input (conversion): fresh object, clamped if the library clamps
ToFuzzy(a) == /\ nobj < MaxObj /\ Len(hist) < MaxHist /\ a \in 1..nobj /\ nobj' = New
              /\ inr' = [inr EXCEPT ![New] = FuzzyProducersClamp] /\ fuzzy' = [fuzzy EXCEPT ![New] = TRUE]
              /\ results' = Append(results, New) /\ hist' = Append(hist, <<"ToFuzzy", a>>) /\ UNCHANGED <<vis, hid>>
Clamp(o, v, h, r) == <<[v EXCEPT ![o] = IF r[o] THEN @ ELSE @ + 1], [h EXCEPT ![o] = @ + 1], [r EXCEPT ![o] = TRUE]>>
Consume(kind, a) ==
    /\ Len(hist) < MaxHist /\ a \in 1..nobj /\ hist' = Append(hist, <<kind, a>>)
    /\ CASE kind = "OutOfPlace" ->
              /\ nobj < MaxObj /\ nobj' = New /\ results' = Append(results, New)
              /\ inr' = [inr EXCEPT ![New] = FALSE] /\ fuzzy' = [fuzzy EXCEPT ![New] = FALSE] /\ UNCHANGED <<vis, hid>>
         [] kind = "CopyThenInPlace" ->
              IF CopyBeforeAccumulate
              THEN /\ nobj < MaxObj /\ nobj' = New /\ results' = Append(results, New)
                   /\ inr' = [inr EXCEPT ![New] = FALSE] /\ fuzzy' = [fuzzy EXCEPT ![New] = FALSE] /\ UNCHANGED <<vis, hid>>
              ELSE /\ vis' = [vis EXCEPT ![a] = @ + 1] /\ results' = Append(results, a) /\ UNCHANGED <<nobj, hid, inr, fuzzy>>
         [] kind = "AliasReturn" -> /\ results' = Append(results, a) /\ UNCHANGED <<nobj, vis, hid, inr, fuzzy>>
         [] kind = "AliasThenClamp" ->
              /\ fuzzy[a]                                   \* validation admits only fuzzy-tagged producers
              /\ LET c == Clamp(a, vis, hid, inr) IN vis' = c[1] /\ hid' = c[2] /\ inr' = c[3]
              /\ results' = Append(results, a) /\ UNCHANGED <<nobj, fuzzy>>
         [] kind = "ClampFresh" ->
              /\ nobj < MaxObj /\ nobj' = New /\ results' = Append(results, New)
              /\ inr' = [inr EXCEPT ![New] = TRUE] /\ fuzzy' = [fuzzy EXCEPT ![New] = TRUE] /\ UNCHANGED <<vis, hid>>
Next == \/ \E r \in BOOLEAN : Read(r)
        \/ \E a \in Obj : ToFuzzy(a)
        \/ \E k \in Kinds, a \in Obj : Consume(k, a)
Spec == Init /\ [][Next]_vars
\* C09: the visible part of an existing result object never changes
Immutable == [][\A o \in 1..nobj : vis'[o] = vis[o]]_vars
\* the lemma it rests on (C04): fuzzy-tagged objects are in range
FuzzyInRange == \A o \in 1..nobj : fuzzy[o] => inr[o]
=============================================================================
