---------------------------- MODULE MPRunAbsProof ----------------------------
(***************************************************************************)
(* TLAPS proof, for ANY set of commands (no bound on their number or on    *)
(* the length of a history), of what the abstract engine MPRunAbs          *)
(* guarantees: a finished command has only finished dependencies and its   *)
(* value is the term built from the CURRENT values of the commands it      *)
(* uses (C01 / C02 at the level of the property).  TLC checks that the     *)
(* implementation-shaped MPRun refines MPRunAbs for N <= 4; this theorem   *)
(* removes the bound on the abstract side.                                 *)
(***************************************************************************)
EXTENDS MPRunAbs, TLAPS

States == {"new", "running", "finished"}
TypeOK == /\ ast \in [Cmds -> States]
          /\ uses \in [Cmds -> SUBSET Cmds]
          /\ DOMAIN aval = Cmds
Good(c) == /\ \A d \in uses[c] : ast[d] = "finished"
           /\ aval[c] = <<c, [d \in uses[c] |-> aval[d]]>>
Inv == TypeOK /\ \A c \in Cmds : ast[c] = "finished" => Good(c)

LEMMA InitInv == AInit => Inv
  BY DEF AInit, Inv, TypeOK, Good, States, NoValA

LEMMA BeginInv == ASSUME Inv, NEW c \in Cmds, Begin(c) PROVE Inv'
  <1> USE DEF Inv, TypeOK, Good, States, Begin, Uses
  <1>1. TypeOK' OBVIOUS
  <1>2. ASSUME NEW x \in Cmds, ast'[x] = "finished" PROVE Good(x)'
    <2>1. x # c /\ ast[x] = "finished" BY <1>2
    <2>2. \A d \in uses[x] : d # c /\ ast'[d] = "finished" BY <2>1
    <2> QED BY <2>1, <2>2
  <1> QED BY <1>1, <1>2

LEMMA FinishInv == ASSUME Inv, NEW c \in Cmds, Finish(c) PROVE Inv'
  <1> USE DEF Inv, TypeOK, Good, States, Finish, Uses
  <1>1. TypeOK' OBVIOUS
  <1>2. c \notin uses[c] OBVIOUS
  <1>3. ASSUME NEW x \in Cmds, ast'[x] = "finished" PROVE Good(x)'
    <2>1. CASE x = c
      <3>1. \A d \in uses[c] : d # c /\ aval'[d] = aval[d] /\ ast'[d] = "finished" BY <1>2
      <3>2. aval'[c] = <<c, [d \in uses[c] |-> aval[d]]>> OBVIOUS
      <3>3. [d \in uses[c] |-> aval[d]] = [d \in uses[c] |-> aval'[d]] BY <3>1
      <3> QED BY <2>1, <3>1, <3>2, <3>3
    <2>2. CASE x # c
      <3>1. ast[x] = "finished" BY <2>2, <1>3
      <3>2. \A d \in uses[x] : d # c /\ aval'[d] = aval[d] /\ ast'[d] = "finished" BY <3>1
      <3>3. aval'[x] = aval[x] BY <2>2
      <3>4. [d \in uses[x] |-> aval[d]] = [d \in uses[x] |-> aval'[d]] BY <3>2
      <3> QED BY <3>1, <3>2, <3>3, <3>4
    <2> QED BY <2>1, <2>2
  <1> QED BY <1>1, <1>3

LEMMA AbortInv == ASSUME Inv, NEW S \in SUBSET Cmds, Abort(S) PROVE Inv'
  <1> USE DEF Inv, TypeOK, Good, States, Abort, Uses
  <1>1. TypeOK' OBVIOUS
  <1>2. ASSUME NEW x \in Cmds, ast'[x] = "finished" PROVE Good(x)'
    <2>1. x \notin S /\ ast[x] = "finished" BY <1>2
    <2>2. \A d \in uses[x] : d \notin S /\ ast'[d] = "finished" BY <2>1
    <2> QED BY <2>1, <2>2
  <1> QED BY <1>1, <1>2

LEMMA NextInv == Inv /\ [ANext]_avars => Inv'
  <1> SUFFICES ASSUME Inv, [ANext]_avars PROVE Inv' OBVIOUS
  <1>1. CASE UNCHANGED avars BY <1>1 DEF Inv, TypeOK, Good, avars
  <1>2. CASE ANext
    <2>1. CASE \E c \in Cmds : Begin(c) BY <2>1, BeginInv
    <2>2. CASE \E c \in Cmds : Finish(c) BY <2>2, FinishInv
    <2>3. CASE \E S \in SUBSET Cmds : Abort(S) BY <2>3, AbortInv
    <2> QED BY <1>2, <2>1, <2>2, <2>3 DEF ANext
  <1> QED BY <1>1, <1>2

THEOREM Safety == ASpec => []Inv
  BY InitInv, NextInv, PTL DEF ASpec

\* a finished command stays finished with its value (what C09 / "exactly once" rest on)
Keeps == \A c \in Cmds : ast[c] = "finished" => ast'[c] = "finished" /\ aval'[c] = aval[c]
LEMMA StepKeeps == Inv /\ [ANext]_avars => [Keeps]_avars
  <1> SUFFICES ASSUME Inv, ANext PROVE Keeps BY DEF avars
  <1> USE DEF Inv, TypeOK, States, Keeps
  <1>1. CASE \E c \in Cmds : Begin(c) BY <1>1 DEF Begin
  <1>2. CASE \E c \in Cmds : Finish(c) BY <1>2 DEF Finish
  <1>3. CASE \E S \in SUBSET Cmds : Abort(S) BY <1>3 DEF Abort
  <1> QED BY <1>1, <1>2, <1>3 DEF ANext
THEOREM FinishedForever == ASpec => AFinishedForever
  <1>1. ASpec => [][ANext]_avars BY DEF ASpec
  <1>2. ASpec => []Inv BY Safety
  <1> QED BY <1>1, <1>2, StepKeeps, PTL DEF AFinishedForever, Keeps
=============================================================================
