------------------------------ MODULE EEMSModelTrace ------------------------------
(* record == [id, table, nodes, obs]: the results the real engine + libraries produced for every command of a model loaded from a command file     *)
(* (in some textual order, with metadata, with extra consumers): obs[k] = <<"ok", cells>> | <<ErrorClass, <<>>>> for node k.                       *)
(* The oracle is EEMSModel.Val: the evaluation of the dependency graph through EEMSOps.Sem.                                                      *)
EXTENDS EEMSModel, Json, IOUtils
Traces == ndJsonDeserialize(IOEnv.TRACE_FILE)
VARIABLES tid, verdict
T == Traces[tid]
CellClause(cmd, exp, got) ==
    IF IsMV(exp) /\ IsMV(got) THEN "ok"
    ELSE IF IsMV(exp) # IsMV(got) THEN "Mask"
    ELSE IF cmd \in FuzzyCmds /\ got[2] > 0 /\ (RLt(got, R(-1)) \/ RLt(R(1), got)) THEN "OutOfRange"
    ELSE IF exp # got THEN "Value" ELSE "ok"
NodeClause(exp, cmd, got) ==
    IF ~IsOk(got) THEN "Failed"
    ELSE IF Len(exp[2]) # Len(got[2]) THEN "Shape"
    ELSE LET cs == {CellClause(cmd, exp[2][j], got[2][j]) : j \in 1..Len(exp[2])} IN
         IF "Mask" \in cs THEN "Mask" ELSE IF "OutOfRange" \in cs THEN "OutOfRange" ELSE IF "Value" \in cs THEN "Value" ELSE "ok"
\* t.obs is a sequence of runs of the same model (different textual orders); the graph is evaluated once
Judge(t) == LET e == Eval(t.nodes, Len(t.nodes))
                bad == {<<r, k>> \in (1..Len(t.obs)) \X (1..Len(t.nodes)) : NodeClause(e[k], t.nodes[k][1], t.obs[r][k]) # "ok"} IN
            IF bad = {} THEN <<"ok", 0, 0>>
            ELSE LET b == CHOOSE b \in bad : \A c \in bad : b[1] < c[1] \/ (b[1] = c[1] /\ b[2] <= c[2]) IN
                 <<NodeClause(e[b[2]], t.nodes[b[2]][1], t.obs[b[1]][b[2]]), b[2], b[1]>>
TInit == tid \in 1..Len(Traces) /\ verdict = <<"pending", 0, 0>> /\ nodes = <<>>
TNext == verdict[1] = "pending" /\ verdict' = Judge(T) /\ UNCHANGED <<tid, nodes>>
TReport == verdict[1] # "pending" => PrintT(<<"VERDICT", T.id, verdict[1], verdict[2], verdict[3]>>)
=============================================================================
