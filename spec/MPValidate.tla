------------------------------ MODULE MPValidate ------------------------------
(***************************************************************************)
(* The load / validate / execute pipeline over the programs built by       *)
(* MPValidateDefs (one action per step of the implementation) and the      *)
(* properties C12 / C13 state about it.                                    *)
(***************************************************************************)
EXTENDS MPValidateDefs

CONSTANTS PrepassAll,      \* TRUE: run() cleans every argument of every command before anything executes (intended and pinned)
          CleanersTotal    \* TRUE: cleaners convert every failure into a parameter error (FALSE = pinned: raw TypeError)


\* ---------- the pipeline
VARIABLES prog, tcmd, tall, tfault, phase, i, j, outcome, nexec, files, executed
vars == <<prog, tcmd, tall, tfault, phase, i, j, outcome, nexec, files, executed>>
Pending == <<"pending", "", 0, "", "">>
Raise(cls, idx, pn, what) == outcome' = <<"err", cls, idx, pn, what>> /\ phase' = "done"

InitWith(FS(_)) ==
        /\ tcmd \in DeclNames /\ tall \in BOOLEAN /\ tfault \in FS(D(tcmd)) /\ (tfault[1] \in {"pair", "cycle", "selfloop"} => ~tall)
        /\ \E pos \in {"first", "last"} : prog = Build(tcmd, tall, tfault, pos)
        /\ phase = "load" /\ i = 1 /\ j = 1 /\ outcome = Pending /\ nexec = 0 /\ files = {} /\ executed = {}

Init == InitWith(FaultsOf)
JustCycles(d) == CycleFaultsOf(d) \cup {<<"none", "", <<>>>>}
InitCycles == InitWith(JustCycles)          \* C14's share: only the programs with a reference cycle (and the valid models)

\* Program.from_source: one command at a time, in file order
LoadCmd ==
    /\ phase = "load" /\ i <= Len(prog)
    /\ LET c == prog[i] IN
       IF CName(c) \notin DeclNames THEN Raise("CommandDoesNotExist", i, "", CName(c)) /\ UNCHANGED <<i, j>>
       ELSE LET d == D(CName(c)) IN
            IF \E k \in 1..(i - 1) : Res(prog[k]) = Res(c) THEN Raise("DuplicateResult", i, "", Res(c)) /\ UNCHANGED <<i, j>>
            ELSE IF Required(d) \ ArgNames(c) # {} THEN Raise("MissingParameters", i, "", CName(c)) /\ UNCHANGED <<i, j>>
            ELSE IF \E k \in 1..Len(Args(c)) : Args(c)[k][1] \notin PNames(d) /\ ~AllowExtra(d)
                 THEN LET k == CHOOSE k \in 1..Len(Args(c)) : Args(c)[k][1] \notin PNames(d) /\ \A m \in 1..(k - 1) : Args(c)[m][1] \in PNames(d) IN
                      Raise("NoSuchParameter", i, Args(c)[k][1], Args(c)[k][1]) /\ UNCHANGED <<i, j>>
            ELSE i' = i + 1 /\ UNCHANGED <<j, outcome, phase>>
    /\ UNCHANGED <<prog, tcmd, tall, tfault, nexec, files, executed>>
LoadDone == /\ phase = "load" /\ i > Len(prog) /\ phase' = (IF PrepassAll THEN "prepass" ELSE "exec") /\ i' = 1 /\ j' = 1
            /\ UNCHANGED <<prog, tcmd, tall, tfault, outcome, nexec, files, executed>>

\* what cleaning one argument raises
CleanOutcome(c, k) ==
    LET d == D(CName(c)) a == Args(c)[k] IN
    IF a[1] \notin PNames(d) THEN <<"ok">> ELSE ValidateVal(prog, Cfg(d, a[1]), a[2])
RaisedClass(r) == IF ~CleanersTotal /\ r[2] = <<"ParameterNotValid">> /\ r[3] = "" THEN "TypeError" ELSE r[2][1]

\* Program.run pre-pass: every argument of every command, in order, before anything executes
PrepassClean ==
    /\ phase = "prepass" /\ i <= Len(prog)
    /\ IF j > Len(Args(prog[i])) THEN i' = i + 1 /\ j' = 1 /\ UNCHANGED <<outcome, phase>>
       ELSE LET r == CleanOutcome(prog[i], j) IN
            IF r[1] = "err" THEN Raise(RaisedClass(r), i, Args(prog[i])[j][1], r[3]) /\ UNCHANGED <<i, j>>
            ELSE j' = j + 1 /\ UNCHANGED <<i, outcome, phase>>
    /\ UNCHANGED <<prog, tcmd, tall, tfault, nexec, files, executed>>
PrepassDone == /\ phase = "prepass" /\ i > Len(prog) /\ phase' = "exec"
               /\ UNCHANGED <<prog, tcmd, tall, tfault, i, j, outcome, nexec, files, executed>>

\* execution: any command whose referenced results are executed; Command.run validates its own arguments first
DepsOf(c) == DepNames(prog, c)
Writes(c) == CName(c) = "EEMSWrite" \/ (CName(c) = "PrintVars" /\ "OutFileName" \in ArgNames(c))
Ready(k) == k \notin executed /\ \A dn \in DepsOf(prog[k]) : \E m \in executed : Res(prog[m]) = dn
Exec(k) ==
    /\ phase = "exec" /\ Ready(k) /\ \A m \in 1..(k - 1) : ~Ready(m)       \* the order of execution is C01's subject: a fixed one here
    /\ LET bad == {a \in 1..Len(Args(prog[k])) : CleanOutcome(prog[k], a)[1] = "err"} IN
       IF bad # {} THEN LET a == CHOOSE a \in bad : \A b \in bad : a <= b IN
                        Raise(CleanOutcome(prog[k], a)[2][1], k, Args(prog[k])[a][1], CleanOutcome(prog[k], a)[3])
                        /\ UNCHANGED <<nexec, files, executed>>
       ELSE /\ nexec' = nexec + 1 /\ executed' = executed \cup {k}
            /\ files' = IF Writes(prog[k]) THEN files \cup {Res(prog[k])} ELSE files
            /\ UNCHANGED <<outcome, phase>>
    /\ UNCHANGED <<prog, tcmd, tall, tfault, i, j>>
\* nothing can run any more although commands are left: they wait for one another (the engine reports the cycle while it unwinds)
ExecStuck == /\ phase = "exec" /\ executed # 1..Len(prog) /\ \A k \in 1..Len(prog) : ~Ready(k)
             /\ Raise("RecursiveModelStructure", 0, "", "") /\ UNCHANGED <<prog, tcmd, tall, tfault, i, j, nexec, files, executed>>
ExecDone == /\ phase = "exec" /\ executed = 1..Len(prog) /\ outcome' = <<"ok", "", 0, "", "">> /\ phase' = "done"
            /\ UNCHANGED <<prog, tcmd, tall, tfault, i, j, nexec, files, executed>>
\* a command that can never run (it references something that failed to load) does not occur: load errors stop earlier

Next == LoadCmd \/ LoadDone \/ PrepassClean \/ PrepassDone \/ (\E k \in 1..Len(prog) : Exec(k)) \/ ExecStuck \/ ExecDone
Spec == Init /\ [][Next]_vars

\* ---------- properties
Matches(f) == /\ \E m \in 1..Len(f[1]) : f[1][m] = outcome[2]
              /\ f[2] = outcome[3] /\ f[3] = outcome[4] /\ (f[4] = outcome[5] \/ f[4] = "?")
IsCycleError == outcome[1] = "err" /\ outcome[2] = "RecursiveModelStructure"
AcceptIffWellFormed == phase = "done" => ((outcome[1] = "ok") <=> (WellFormed(prog) /\ ~Cyclic(prog)))            \* C12 (and C14: a cyclic model is not accepted)
ErrorIsAFault == outcome[1] = "err" => (\E f \in Faults(prog) : Matches(f)) \/ (IsCycleError /\ WellFormed(prog) /\ Cyclic(prog))   \* C12, C14
RejectBeforeEffects == (outcome[1] = "err" /\ ~IsCycleError) => nexec = 0 /\ files = {}                             \* C12 (a cycle is found while running)
EscapeTyped == outcome[1] = "err" => outcome[2] \in MPilotErrors                                               \* C13
CyclicRejected == (phase = "done" /\ Cyclic(prog) /\ WellFormed(prog)) => IsCycleError                             \* C14
\* the builder and the declarative definition agree: exactly the injected fault
\* (an undeclared argument is no fault for a command that allows extra inputs; a cycle is no ill-formedness)
IsCycleFault == tfault[1] \in {"cycle", "selfloop"}
BuilderSound == /\ (tfault[1] = "none" => WellFormed(prog))
                /\ (tfault[1] = "undeclared" /\ AllowExtra(D(tcmd)) => WellFormed(prog))
                /\ (IsCycleFault => WellFormed(prog) /\ Cyclic(prog))
                /\ (~IsCycleFault /\ tfault[1] # "dup" => ~Cyclic(prog))        \* (a duplicated result name may make a command refer to "itself": rejected at load time)
                /\ (tfault[1] \notin {"none", "pair"} /\ ~IsCycleFault /\ ~(tfault[1] = "undeclared" /\ AllowExtra(D(tcmd))) => ~WellFormed(prog))
=============================================================================
