----------------------------- MODULE MPSerialize -----------------------------
(***************************************************************************)
(* Program.to_string as a function into the command-file language (C15):   *)
(* Serialize(prog) is the canonical rendering (strings double-quoted with  *)
(* escapes, references bare, one argument per line) and loading it back    *)
(* must give the same program: Denote(Serialize(prog)) = prog.             *)
(* Programs range over one Echo command with every parameter kind; the     *)
(* value ids stand for the concrete values listed in harness/serial.py.    *)
(***************************************************************************)
EXTENDS MPSyntaxDefs
CONSTANT Size       \* "quick" | "full"
StrIds == IF Size = "quick" THEN {"plain", "dquote", "backslash", "nonascii", "delims", "empty", "numlike", "newline", "trailbs", "boollike"}
          ELSE {"plain", "spaces", "dquote", "squote", "backslash", "nonascii", "delims", "empty", "numlike", "boollike", "padded", "newline", "hash", "trailbs"}
NumIds == IF Size = "quick" THEN {"int", "negint", "dec", "smallexp", "bigexp", "bigint", "digits17"}
          ELSE {"int", "zero", "negint", "bigint", "dec", "negdec", "smallexp", "bigexp", "exp22", "tenth", "whole", "tiny", "digits17", "third", "ulp16"}
ListIds == {"empty", "ints", "mixed", "exps"}
Str(id) == <<"str", id, "dq">>
Num(id) == IF id \in {"int", "zero", "negint", "bigint"} THEN <<"int", id>> ELSE <<"float", id>>
ListOf(id) == CASE id = "empty" -> <<"list", <<>>>>
                [] id = "ints" -> <<"list", <<Num("int"), Num("negint")>>>>
                [] id = "mixed" -> <<"list", <<Num("int"), Num("dec"), Num("bigint")>>>>
                [] id = "exps" -> <<"list", <<Num("smallexp"), Num("bigexp")>>>>
Program(s, n, l, s2, n2) ==
    << <<"X", "Echo", <<>>>>,
       <<"A", "Echo", << <<"S", Str(s)>>, <<"S2", Str(s2)>>, <<"N", Num(n)>>, <<"N2", Num(n2)>>, <<"B", <<"bool", "True">>>>, <<"P", Str("path")>>,
                         <<"DT", Str("Float")>>, <<"L", ListOf(l)>>, <<"LS", <<"list", <<Str(s), Str(s2)>>>>>>,
                         <<"NL", <<"list", <<ListOf(l), <<"list", <<Num(n)>>>>>>>>>>, <<"R", <<"str", "X", "bare">>>>,
                         <<"RL", <<"list", <<<<"str", "X", "bare">>, <<"str", "X", "bare">>>>>>>>,
                         <<"Metadata", <<"tuple", <<<<Str("key"), Str(s)>>, <<Str(s2), Str("plain")>>>>>>>> >> >> >>
Serialize(prog) == Flat(prog, FALSE)
VARIABLES prog, back, done
Init == /\ \E s \in StrIds, n \in NumIds, l \in ListIds, s2 \in StrIds, n2 \in NumIds :
              /\ (Size = "quick" => (s2 = CHOOSE x \in StrIds : x # s) /\ (n2 = CHOOSE x \in NumIds : x # n))
              /\ prog = Program(s, n, l, s2, n2)
        /\ back = <<>> /\ done = FALSE
Next == ~done /\ done' = TRUE /\ back' = Denote(Serialize(prog)).ast /\ UNCHANGED prog
SerializeRoundTrip == done => back = prog
=============================================================================
