------------------------------- MODULE MPRun -------------------------------
(***************************************************************************)
(* Run engine of mpilot: Program.run (pre-pass, leaf loop, sweep),         *)
(* Command.run (memo guard, cycle guard, validate, execute, wrap errors),  *)
(* Command.result (pull).  One action per step of the implementation.      *)
(*                                                                         *)
(* Commands are 1..N; numeric order is textual order, so quantifying over  *)
(* all labelled graphs covers every textual order and forward references.  *)
(* The program (chosen in Init, then constant):                            *)
(*   direct[c]  results c references through a ResultParameter             *)
(*   listed[c]  results c references through a (nested) ListParameter      *)
(*   fails      commands whose execute() raises after reading its inputs   *)
(* Design switches (CONSTANTS) select the intended or the pinned design.   *)
(***************************************************************************)
EXTENDS Integers, Sequences, FiniteSets, TLC

CONSTANTS N,              \* number of commands
          Memo,           \* Command.run / .result honour is_finished
          CycleGuard,     \* Command.run raises RecursiveModelStructure when re-entered
          ResetOnUnwind,  \* is_running is reset when an exception leaves Command.run
          Sweep,          \* Program.run runs every still-unfinished command after the leaves
          LeafKey,        \* "mixed": list references keyed by object (=> always leaves) | "name"
          MaxStack,       \* stands in for the interpreter's recursion limit
          MaxCalls,       \* number of top-level API calls explored
          MaxFail,        \* at most this many failing commands
          MaxSpecial,     \* at most this many "special" features in total: failing command, ignored reference, None result
          MemoKey,        \* "flag": the memo test is the finished flag | "result": a non-None stored result (a design that loses None results)
          OnlyDags,       \* restrict Init to acyclic programs
          OnlyCyclic,     \* restrict Init to cyclic programs
          MaxEdges        \* at most this many references in the program (N * N = no bound); bounds the 4-command cyclic family

Cmd == 1..N
VARIABLES direct, listed, fails,
          ignored,        \* ignored[c]: referenced results that c's execute never reads (a short-circuiting consumer)
          nulls,          \* commands whose execute returns None
          late,           \* commands that are added to the program (add_command) only after the first call has returned
          added,          \* ... and whether that has happened
          pstate, queue, st, nexec, ndone, stack, todo, val, err, hist
prog == <<direct, listed, fails, ignored, nulls, late, added>>     \* everything only AddLate may change
vars == <<direct, listed, fails, ignored, nulls, late, added, pstate, queue, st, nexec, ndone, stack, todo, val, err, hist>>

Deps(c) == direct[c] \cup listed[c]
NoVal == <<>>

\* ---------- graph helpers
RECURSIVE Reach(_, _)
Reach(S, k) == IF k = 0 THEN S ELSE Reach(S \cup UNION {Deps(c) : c \in S}, k - 1)
OnCycle(c) == c \in Reach(Deps(c), N)
HasCycle == \E c \in Cmd : OnCycle(c)
ReachesCycle(c) == \E d \in Reach({c}, N) : OnCycle(d)
RECURSIVE Unfold(_)
Reads(c) == Deps(c) \ ignored[c]
Unfold(c) == <<c, [d \in Reads(c) |-> Unfold(d)]>>         \* the mathematical evaluation; DAGs only
DependsOnFailure(c) == \E d \in Reach({c}, N) : d \in fails

\* ---------- leaves as Program.run computes them
Present == IF added THEN Cmd ELSE Cmd \ late
Dependents(c) == {x \in Present : c \in direct[x] \/ (LeafKey = "name" /\ c \in listed[x])}
Leaves == {c \in Present : Dependents(c) = {}}
SeqOf(S) == LET RECURSIVE F(_, _)
                F(k, acc) == IF k > N THEN acc ELSE F(k + 1, IF k \in S THEN Append(acc, k) ELSE acc)
            IN F(1, <<>>)
Top == stack[Len(stack)]
Pop(s) == SubSeq(s, 1, Len(s) - 1)

\* all programs: a dependency graph, then for every edge the kind of reference (direct / listed)
Edges(g) == {e \in Cmd \X Cmd : e[2] \in g[e[1]]}
RECURSIVE ReachG(_, _, _)
ReachG(g, S, k) == IF k = 0 THEN S ELSE ReachG(g, S \cup UNION {g[c] : c \in S}, k - 1)
CyclicG(g) == \E c \in Cmd : c \in ReachG(g, g[c], N)
Init == /\ \E g \in [Cmd -> SUBSET Cmd] :
              /\ (OnlyDags => ~CyclicG(g)) /\ (OnlyCyclic => CyclicG(g))
              /\ Cardinality(Edges(g)) <= MaxEdges
              /\ \E L \in SUBSET Edges(g) :
                    /\ listed = [c \in Cmd |-> {d \in g[c] : <<c, d>> \in L}]
                    /\ direct = [c \in Cmd |-> {d \in g[c] : <<c, d>> \notin L}]
        /\ fails \in {F \in SUBSET Cmd : Cardinality(F) <= MaxFail}
        /\ \E I \in {{}} \cup {{e} : e \in {e \in Cmd \X Cmd : e[2] \in Deps(e[1])}} :
              ignored = [c \in Cmd |-> {d \in Cmd : <<c, d>> \in I}]
        /\ nulls \in {{}} \cup {{c} : c \in Cmd}
        /\ late \in {{}} \cup {{c} : c \in {c \in Cmd : \A x \in Cmd : c \notin Deps(x)}}      \* only a command nothing refers to can be added later
        /\ added = FALSE
        /\ Cardinality(fails) + Cardinality(UNION {ignored[c] : c \in Cmd}) + Cardinality(nulls) + Cardinality(late) <= MaxSpecial
        /\ pstate = "idle" /\ queue = <<>> /\ st = [c \in Cmd |-> "new"]
        /\ nexec = [c \in Cmd |-> 0] /\ ndone = [c \in Cmd |-> 0]
        /\ stack = <<>> /\ todo = [c \in Cmd |-> {}] /\ val = [c \in Cmd |-> NoVal]
        /\ err = "none" /\ hist = <<>>

Idle == pstate \in {"idle", "returned", "raised"}

\* ---------- Program.run(): pre-pass (cleans every argument; no execution), then the leaf queue
CallRun == /\ Idle /\ Len(hist) < MaxCalls /\ hist' = Append(hist, <<"run", 0>>)
           /\ pstate' = "prepass" /\ err' = "none"
           /\ UNCHANGED <<prog, queue, st, nexec, ndone, stack, todo, val>>
Prepass == /\ pstate = "prepass" /\ pstate' = "running"
           /\ queue' = SeqOf(Leaves) \o (IF Sweep THEN SeqOf(Present \ Leaves) ELSE <<>>)
           /\ UNCHANGED <<prog, st, nexec, ndone, stack, todo, val, err, hist>>

\* ---------- Command.run(c), entered from the leaf loop or from a dependency pull
Done(c) == st[c] = "finished" /\ (MemoKey = "flag" \/ c \notin nulls)      \* what the memo test sees
Enter(c) == IF Memo /\ Done(c)
            THEN UNCHANGED <<st, nexec, stack, todo, err, pstate>>                       \* memo hit
            ELSE IF CycleGuard /\ st[c] = "running"
            THEN /\ err' = "RecursiveModelStructure" /\ pstate' = "unwinding"
                 /\ UNCHANGED <<st, nexec, stack, todo>>
            ELSE IF Len(stack) >= MaxStack
            THEN /\ err' = "StackOverflow" /\ pstate' = "unwinding" /\ UNCHANGED <<st, nexec, stack, todo>>
            ELSE /\ st' = [st EXCEPT ![c] = "running"] /\ nexec' = [nexec EXCEPT ![c] = @ + 1]
                 /\ stack' = Append(stack, c) /\ todo' = [todo EXCEPT ![c] = Reads(c)]
                 /\ UNCHANGED <<err, pstate>>

PickLeaf == /\ pstate = "running" /\ stack = <<>> /\ queue # <<>>
            /\ queue' = Tail(queue) /\ Enter(Head(queue))
            /\ UNCHANGED <<prog, ndone, val, hist>>

\* execute() of the top frame asks for one more input: d.result
Pull(d) == /\ pstate = "running" /\ stack # <<>> /\ d \in todo[Top]
           /\ IF Memo /\ Done(d)
              THEN /\ todo' = [todo EXCEPT ![Top] = @ \ {d}]                  \* read the finished value
                   /\ UNCHANGED <<st, nexec, stack, err, pstate>>
              ELSE Enter(d)                                                  \* nested Command.run(d)
           /\ UNCHANGED <<prog, queue, ndone, val, hist>>

ExecEnd == /\ pstate = "running" /\ stack # <<>> /\ todo[Top] = {} /\ Top \notin fails
           /\ val' = [val EXCEPT ![Top] = <<Top, [d \in Reads(Top) |-> val[d]]>>]
           /\ st' = [st EXCEPT ![Top] = "finished"] /\ ndone' = [ndone EXCEPT ![Top] = @ + 1]
           /\ stack' = Pop(stack)
           /\ todo' = IF Len(stack) >= 2                      \* the caller's d.result returns the value
                      THEN [todo EXCEPT ![stack[Len(stack) - 1]] = @ \ {Top}] ELSE todo
           /\ UNCHANGED <<prog, pstate, queue, nexec, err, hist>>

ExecFail == /\ pstate = "running" /\ stack # <<>> /\ todo[Top] = {} /\ Top \in fails
            /\ err' = "ExecError" /\ pstate' = "unwinding"
            /\ UNCHANGED <<prog, queue, st, nexec, ndone, stack, todo, val, hist>>

Unwind == /\ pstate = "unwinding"
          /\ IF stack = <<>> THEN /\ pstate' = "raised" /\ queue' = <<>> /\ UNCHANGED <<st, stack>>
             ELSE /\ stack' = Pop(stack) /\ UNCHANGED <<pstate, queue>>
                  /\ st' = [st EXCEPT ![Top] = IF ResetOnUnwind THEN "new" ELSE @]
          /\ UNCHANGED <<prog, nexec, ndone, todo, val, err, hist>>

ReturnCall == /\ pstate = "running" /\ stack = <<>> /\ queue = <<>> /\ pstate' = "returned"
              /\ UNCHANGED <<prog, queue, st, nexec, ndone, stack, todo, val, err, hist>>

\* ---------- program.commands[c].result
\* program.add_command(...) between two calls
AddLate == /\ Idle /\ hist # <<>> /\ ~added /\ late # {} /\ Len(hist) < MaxCalls
           /\ added' = TRUE /\ hist' = Append(hist, <<"add", 0>>)
           /\ UNCHANGED <<direct, listed, fails, ignored, nulls, late, pstate, queue, st, nexec, ndone, stack, todo, val, err>>
CallResult(c) == /\ Idle /\ c \in Present /\ Len(hist) < MaxCalls /\ hist' = Append(hist, <<"result", c>>)
                 /\ pstate' = "running" /\ err' = "none" /\ queue' = <<c>>
                 /\ UNCHANGED <<prog, st, nexec, ndone, stack, todo, val>>

Internal == Prepass \/ PickLeaf \/ (\E d \in Cmd : Pull(d)) \/ ExecEnd \/ ExecFail \/ Unwind \/ ReturnCall
Next == CallRun \/ (\E c \in Cmd : CallResult(c)) \/ AddLate \/ Internal
Spec == Init /\ [][Next]_vars /\ WF_vars(Internal)

\* ---------- properties
LastIsRun == hist # <<>> /\ hist[Len(hist)][1] = "run"
Terminal == pstate \in {"returned", "raised"}

\* C01: nothing is executed to completion twice; without failures or cycles nothing even starts twice
ExactlyOnce == \A c \in Cmd : ndone[c] <= 1 /\ ((fails = {} /\ ~HasCycle) => nexec[c] <= 1)
\* C01: a successful run leaves every command executed
RunCompletes == (pstate = "returned" /\ LastIsRun) => \A c \in Present : st[c] = "finished" /\ ndone[c] = 1
\* C01: an execution only begins for a command that is neither finished nor in progress
NoReexec == [][\A c \in Cmd : nexec'[c] > nexec[c] => st[c] = "new"]_vars
\* C01: re-running / re-reading after a successful run executes nothing
Quiescent == [][(\A c \in Cmd : st[c] = "finished") => nexec' = nexec]_vars
\* C01/C02: every finished value is the evaluation of the graph below it (whatever the order)
TermCorrect == \A c \in Cmd : (st[c] = "finished" /\ ~ReachesCycle(c)) => val[c] = Unfold(c)
\* C14
CyclicRejected == (HasCycle /\ fails = {} /\ LastIsRun /\ Terminal) => (pstate = "raised" /\ err = "RecursiveModelStructure")
AcyclicAccepted == (~HasCycle /\ fails = {} /\ Terminal) => pstate = "returned"
NoSpuriousRecursive == (~HasCycle) => err # "RecursiveModelStructure"
StackBounded == Len(stack) <= N /\ err # "StackOverflow"
\* failure semantics (growth): an error is reported iff something needed fails; nothing finished is lost
FailureReported == (~HasCycle /\ LastIsRun /\ Terminal) => ((pstate = "raised") <=> (fails \cap Present # {}))      \* (a failing command that is not yet in the program cannot fail the run)
FinishedStays == [][\A c \in Cmd : st[c] = "finished" => st'[c] = "finished" /\ val'[c] = val[c]]_vars
NoRunningWhenIdle == (Idle /\ ResetOnUnwind) => \A c \in Cmd : st[c] # "running"
\* liveness: every call terminates
Terminates == [](~Idle ~> Idle)

\* ---------- refinement: every step of the engine is a step (or a stuttering step) of the schedule-free specification MPRunAbs
Abs == INSTANCE MPRunAbs WITH Cmds <- Cmd, uses <- [c \in Cmd |-> Reads(c)], ast <- st, aval <- val
RefinesAbs == Abs!ASpec

\* printed once per terminal state for the replay harness (single worker runs only)
Report == (Terminal /\ Len(hist) = MaxCalls) =>
             PrintT(<<"TERM", direct, listed, fails, ignored, nulls, late, hist, pstate, err, nexec, ndone>>)
=============================================================================
