---------------------------- MODULE MPSyntaxTrace ----------------------------
(***************************************************************************)
(* Validation of recorded parses.  record ==                               *)
(*   [id, kind, toks, obs, lines, obslines]                                *)
(*   toks: the abstract token sequence that was written (rendering or a    *)
(*         single-token corruption of one), <<kind, payload>> each          *)
(*   obs:  <<"ok", observed program (style-free), version>> or              *)
(*         <<"err", exception class, is SyntaxError>>                       *)
(*   lines / obslines: <<node path, line>> from the renderer / from the    *)
(*         parse tree                                                      *)
(* The oracle is MPSyntaxDefs.Denote on the token sequence.                 *)
(***************************************************************************)
EXTENDS MPSyntaxDefs, Json, IOUtils
Traces == ndJsonDeserialize(IOEnv.TRACE_FILE)
VARIABLES tid, verdict
T == Traces[tid]
Toks3(ts) == [k \in 1..Len(ts) |-> <<ts[k][1], ts[k][2], <<>>>>]
RECURSIVE StripV(_)
StripV(v) == CASE v[1] = "str" -> <<"str", v[2]>>
               [] v[1] = "list" -> <<"list", [k \in 1..Len(v[2]) |-> StripV(v[2][k])]>>
               [] v[1] = "tuple" -> <<"tuple", {<<StripV(v[2][k][1]), StripV(v[2][k][2])>> : k \in 1..Len(v[2])}>>
               [] OTHER -> v
StripP(p) == [i \in 1..Len(p) |-> <<p[i][1], p[i][2], [j \in 1..Len(p[i][3]) |-> <<p[i][3][j][1], StripV(p[i][3][j][2])>>]>>]
RECURSIVE ObsV(_)
ObsV(v) == CASE v[1] = "list" -> <<"list", [k \in 1..Len(v[2]) |-> ObsV(v[2][k])]>>
             [] v[1] = "tuple" -> <<"tuple", {<<ObsV(v[2][k][1]), ObsV(v[2][k][2])>> : k \in 1..Len(v[2])}>>
             [] OTHER -> v
ObsP(p) == [i \in 1..Len(p) |-> <<p[i][1], p[i][2], [j \in 1..Len(p[i][3]) |-> <<p[i][3][j][1], ObsV(p[i][3][j][2])>>]>>]
Judge(t) ==
    LET d == Denote(Toks3(t.toks)) IN
    IF d.ok THEN
        IF t.obs[1] = "err" THEN (IF t.obs[3] THEN "C10.RejectedWellFormed" ELSE "C10.NotSyntaxError")
        ELSE IF ObsP(t.obs[2]) # StripP(d.ast) THEN "C10.AstMismatch"
        ELSE IF t.obs[3] # Version(d.ast) THEN "C16.Version"
        ELSE IF t.obslines # t.lines THEN "C11.NodeLine"
        ELSE "ok"
    ELSE IF t.obs[1] = "ok" THEN "C10.AcceptedMalformed"
    ELSE IF ~t.obs[3] THEN "C10.NotSyntaxError"
    ELSE "ok"
TInit == tid \in 1..Len(Traces) /\ verdict = "pending"
TNext == verdict = "pending" /\ verdict' = Judge(T) /\ UNCHANGED tid
TReport == verdict # "pending" => PrintT(<<"VERDICT", T.id, verdict>>)
=============================================================================
