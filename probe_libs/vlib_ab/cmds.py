from mpilot.commands import Command


class Foo(Command):
    def execute(self, **kw):
        return "vlib_ab.Foo"


class Baz(Command):
    def execute(self, **kw):
        return "vlib_ab.Baz"
