from mpilot.commands import Command


class FooFromAB(Command):
    # the COMMAND name is what counts for lookup and duplicate detection, not the Python class name
    name = "Foo"

    def execute(self, **kw):
        return "vlib_ab.Foo"


class Baz(Command):
    def execute(self, **kw):
        return "vlib_ab.Baz"
