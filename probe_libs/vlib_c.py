from mpilot.commands import Command


class Foo(Command):
    def execute(self, **kw):
        return "vlib_c.Foo"


class FooVariant(Foo):
    # a command that reuses an implementation: no execute() of its own, only another command name
    name = "Variant"
