from mpilot.commands import Command


class Foo(Command):
    def execute(self, **kw):
        return "vlib_c.Foo"
