from mpilot.commands import Command
from vlib_c import Foo as _CFoo


class Foo(_CFoo):
    # extends vlib_c's Foo under the SAME command name: requested together with vlib_c this is still two definitions of one name
    def execute(self, **kw):
        return "vlib_d.Foo"


class Zed(Command):
    def execute(self, **kw):
        return "vlib_d.Zed"
