"""A command library with one command that accepts undeclared arguments (Command.allow_extra_inputs): the validation pipeline must
accept such a command with any extra argument and hand the extra values to execute() as written."""
from mpilot import params
from mpilot.commands import Command

SEEN = []


class Extras(Command):
    allow_extra_inputs = True
    inputs = {"Key": params.StringParameter(), "Opt": params.NumberParameter(required=False)}
    output = params.StringParameter()

    def execute(self, **kw):
        SEEN.append(dict(kw))
        return ",".join(sorted(kw))
