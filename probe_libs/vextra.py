"""A command library with one command that accepts undeclared arguments (Command.allow_extra_inputs): the validation pipeline must
accept such a command with any extra argument and hand the extra values to execute() as written."""
from mpilot import params
from mpilot.commands import Command
from mpilot.libraries.eems.fuzzy import FuzzyNot

SEEN = []


class Extras(Command):
    allow_extra_inputs = True
    inputs = {"Key": params.StringParameter(), "Opt": params.NumberParameter(required=False)}
    output = params.StringParameter()

    def execute(self, **kw):
        SEEN.append(dict(kw))
        return ",".join(sorted(kw))


class NotAgain(FuzzyNot):
    """a library command that specialises a built-in fuzzy command without repeating its declarations: what it takes and what it produces
    (a fuzzy result) is what the parent declares"""

    display_name = "Not, again"
