"""Probe commands of the verification library (loaded with libraries=("vprobe",)).

Probe.execute reads the result of every command it references (direct, list, nested list) and returns the
Herbrand term of what it actually read: (own name, (value of dep 1, value of dep 2, ...)).
"""
from mpilot import params
from mpilot.commands import Command
from mpilot.exceptions import ProgramError


class ProbeFailure(ProgramError):
    def __str__(self):
        return "Problem: probe failure\nSolution: none"


def _flat(x):
    for i in x:
        if isinstance(i, (list, tuple)):
            for j in _flat(i):
                yield j
        else:
            yield i


class Term(tuple):
    """tuple subclass so that every result is a distinct object with identity"""


class Probe(Command):
    inputs = {
        "D1": params.ResultParameter(required=False),
        "D2": params.ResultParameter(required=False),
        "D3": params.ResultParameter(required=False),
        "D4": params.ResultParameter(required=False),
        "D5": params.ResultParameter(required=False),
        "L": params.ListParameter(params.ResultParameter(), required=False),
        "NL": params.ListParameter(params.ListParameter(params.ResultParameter()), required=False),
        "NNL": params.ListParameter(
            params.ListParameter(params.ListParameter(params.ResultParameter())), required=False
        ),
        "Fail": params.StringParameter(required=False),
        "Ignore": params.ListParameter(params.StringParameter(), required=False),
        "Null": params.StringParameter(required=False),
    }
    output = params.ListParameter()

    def execute(self, **kw):
        deps = [kw[k] for k in ("D1", "D2", "D3", "D4", "D5") if k in kw]
        deps += list(kw.get("L", [])) + list(_flat(kw.get("NL", []))) + list(_flat(kw.get("NNL", [])))
        skip = set(kw.get("Ignore", []))  # a short-circuiting consumer: these references are never read
        vals = tuple((d.result_name, d.result) for d in deps if d.result_name not in skip)
        fail = kw.get("Fail")
        if fail == "mpilot":
            raise ProbeFailure(self.lineno)
        if fail == "raw":
            raise ZeroDivisionError("probe")
        if kw.get("Null"):
            return None
        return Term((self.result_name, vals))


# ---- producers with every declared output kind (used by the parameter / validation checks)
import numpy as _np


class OutData(Command):
    inputs = {}
    output = params.DataParameter()

    def execute(self, **kw):
        return _np.ma.array([1.0, 2.0, 3.0])


class OutDataFuzzy(Command):
    is_fuzzy = True
    inputs = {}
    output = params.DataParameter()

    def execute(self, **kw):
        return _np.ma.array([-1.0, 0.0, 1.0])


class OutNumber(Command):
    inputs = {}
    output = params.NumberParameter()

    def execute(self, **kw):
        return 3


class OutString(Command):
    inputs = {}
    output = params.StringParameter()

    def execute(self, **kw):
        return "s"


class OutBool(Command):
    inputs = {}
    output = params.BooleanParameter()

    def execute(self, **kw):
        return True


class OutNone(Command):
    inputs = {}

    def execute(self, **kw):
        return None


class Echo(Command):
    """every parameter kind, all optional; the result is the cleaned keyword arguments (commands by result name)"""

    inputs = {
        "S": params.StringParameter(required=False),
        "S2": params.StringParameter(required=False),
        "N": params.NumberParameter(required=False),
        "N2": params.NumberParameter(required=False),
        "B": params.BooleanParameter(required=False),
        "P": params.PathParameter(must_exist=False, required=False),
        "DT": params.DataTypeParameter(required=False),
        "L": params.ListParameter(params.NumberParameter(), required=False),
        "LS": params.ListParameter(params.StringParameter(), required=False),
        "NL": params.ListParameter(params.ListParameter(params.NumberParameter()), required=False),
        "R": params.ResultParameter(required=False),
        "RL": params.ListParameter(params.ResultParameter(), required=False),
    }
    output = params.TupleParameter()

    def execute(self, **kw):
        def d(v):
            if isinstance(v, Command):
                return ("cmd", v.result_name)
            if isinstance(v, (list, tuple)):
                return [d(x) for x in v]
            if isinstance(v, type):
                return ("type", v.__name__)
            if isinstance(v, dict):  # a tuple parameter is a map: the order of its pairs carries no meaning
                return ("dict", sorted((repr(a), repr(b)) for a, b in v.items()))
            return (type(v).__name__, repr(v))

        return {k: d(v) for k, v in sorted(kw.items())}


ARRAYS = {}


class ArrayConst(Command):
    """a data result given by the harness: ARRAYS[Key]"""

    inputs = {"Key": params.StringParameter()}
    output = params.DataParameter()

    def execute(self, **kw):
        return ARRAYS[kw["Key"]]


class ArrayConstFuzzy(ArrayConst):
    is_fuzzy = True
