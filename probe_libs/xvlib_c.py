from mpilot.commands import Command


class Foo(Command):
    def execute(self, **kw):
        return "xvlib_c.Foo"


class Bar(Command):
    def execute(self, **kw):
        return "xvlib_c.Bar"
