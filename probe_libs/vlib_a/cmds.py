from mpilot.commands import Command


class Foo(Command):
    def execute(self, **kw):
        return "vlib_a.Foo"


class Bar(Command):
    def execute(self, **kw):
        return "vlib_a.Bar"
