from mpilot.commands import Command


class Bar(Command):
    # shares its CLASS name with vlib_a.cmds.Bar; its command name is Qux, so the two never collide
    name = "Qux"

    def execute(self, **kw):
        return "vlib_a.sub.Qux"
