from mpilot.commands import Command


class Qux(Command):
    def execute(self, **kw):
        return "vlib_a.sub.Qux"
