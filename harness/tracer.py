"""External tracer: wraps public attributes of the SUT at run time (no source hooks).

Events (appended to EV as dicts):
  exec_begin(c) / exec_end(c, tok) / exec_fail(c, cls)   around every registered class's execute
  read(c, d, tok)    d.result evaluated while c's execute is the innermost activity
  vread(d, tok)      d.result evaluated while parameters are being validated / outside any execute
  clean(c, p, ok, cls)  (optional) one per Parameter.clean issued by the pre-pass / validate_params
Tokens are small ids of result objects; objects are kept alive so ids are never reused.
"""
import sys

EV = []
STACK = []  # names of commands whose execute is active; None marks "validating parameters"
_TOK = {}
_KEEP = []
_installed = {}


def reset():
    del EV[:]
    del STACK[:]
    _TOK.clear()
    del _KEEP[:]


def tok(v):
    k = id(v)
    if k not in _TOK:
        _TOK[k] = "t%d" % len(_TOK)
        _KEEP.append(v)
    return _TOK[k]


def install(extra_classes=()):
    from mpilot.commands import Command

    if not _installed.get("result"):
        prop = Command.__dict__.get("result")
        if isinstance(prop, property):
            orig_get = prop.fget

            def traced_result(self):
                top = STACK[-1] if STACK else None
                v = orig_get(self)
                if top is None:
                    EV.append({"ev": "vread", "d": self.result_name, "tok": tok(v)})
                else:
                    EV.append({"ev": "read", "c": top, "d": self.result_name, "tok": tok(v)})
                return v

            Command.result = property(traced_result, prop.fset, prop.fdel)
        _installed["result"] = True

    if not _installed.get("validate"):
        orig_validate = Command.validate_params

        def traced_validate(self, params):
            STACK.append(None)
            try:
                return orig_validate(self, params)
            finally:
                STACK.pop()

        Command.validate_params = traced_validate
        _installed["validate"] = True

    if not _installed.get("run"):
        orig_run = Command.run

        def traced_run(self):
            # a fresh activation of Command.run: a nested execute() of the same command is a re-entry,
            # not a super().execute() call
            saved = getattr(self, "_vp_depth", 0)
            self._vp_depth = 0
            try:
                return orig_run(self)
            finally:
                self._vp_depth = saved

        Command.run = traced_run
        _installed["run"] = True

    classes = [info.command for info in Command.get_commands()] + list(extra_classes)
    for cls in classes:
        for k in cls.__mro__:
            if k is object:
                continue
            _wrap_execute(k)


def _wrap_execute(cls):
    orig = cls.__dict__.get("execute")
    if orig is None or getattr(orig, "_traced", False):
        return

    def ex(self, **kw):
        if getattr(self, "_vp_depth", 0) > 0:  # super().execute() of the same command
            return orig(self, **kw)
        name = self.result_name
        EV.append({"ev": "exec_begin", "c": name, "kw": sorted(kw)})
        STACK.append(name)
        saved = getattr(self, "_vp_depth", 0)
        self._vp_depth = 1
        try:
            v = orig(self, **kw)
        except BaseException as e:
            EV.append({"ev": "exec_fail", "c": name, "cls": type(e).__name__})
            raise
        else:
            EV.append({"ev": "exec_end", "c": name, "tok": tok(v)})
            return v
        finally:
            self._vp_depth = saved
            STACK.pop()

    ex._traced = True
    cls.execute = ex


def classify(exc):
    """(class name, is MPilotError, is SyntaxError, cause class name)"""
    from mpilot.exceptions import MPilotError

    cause = ""
    inner = getattr(exc, "exc", None)
    if isinstance(inner, BaseException):
        cause = type(inner).__name__
    return type(exc).__name__, isinstance(exc, MPilotError), isinstance(exc, SyntaxError), cause
