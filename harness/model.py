"""C02: whole models.  EEMSModel.tla (TLC -simulate: typed random DAGs + expected arrays) -> command files in several orders ->
from_source + run on the SUT -> EEMSModelTrace.tla (values) and MPRunAbsTrace.tla (engine events)."""
from __future__ import print_function

import contextlib
import io
import json
import os
import random
import re
import shutil
import sys
import threading
from multiprocessing import Pool

from . import core, decl
from .syntax import _blocks
from .eems import snap

MISSING = -9999


def simulate(table, nodes, num, seed, workers=5):
    """random typed models from EEMSModel (-simulate), in batches of at most 25 behaviours: a behaviour in which an exact value outgrows TLC's
    32-bit integers ends its TLC run ("Overflow"), so a batch that fails is replaced by another sample (up to 5 attempts per batch)"""
    d = core.scratch_dir("mpv-em-")
    cfg = os.path.join(d, "m.cfg")
    with open(cfg, "w") as f:
        f.write("CONSTANTS MaxNodes = %d TableId = %d\nINIT Init\nNEXT Next\nCHECK_DEADLOCK FALSE\nINVARIANT PrefixStable\nINVARIANT Report\n" % (nodes, table))
    total = core.TLCResult()
    total.rc = 0
    models, seen = [], set()
    nbatch = max(1, (num + 24) // 25)
    failed = 0
    for bi in range(nbatch):
        bnum = min(25, num - 25 * bi) if num > 25 else num
        good = None
        for attempt in range(5):
            r = core.run_tlc("EEMSModel", cfg, workers=workers, timeout=900, simulate="num=%d" % bnum, depth=nodes + 2, seed=seed + 7919 * bi + 1000 * attempt)
            m = re.search(r"The number of states generated: (\d+)", r.out) or re.search(r"Progress: (\d+) states checked", r.out)
            if m and not r.states:
                r.states = r.distinct = int(m.group(1))
            if r.violated:
                sys.stderr.write("MACHINERY FAILURE: EEMSModel violates %s\n%s\n" % (r.violated, r.out[-2000:]))
                sys.exit(2)
            if not r.error and r.rc == 0:
                good = r
                break
        if good is None:
            failed += 1
            continue
        total.states += good.states
        total.distinct += good.distinct
        total.wall += good.wall
        total.out = getattr(total, "out", "") or ""
        for b in _blocks(good.out, "MODEL"):
            _, tid, ns, ok, vals = b
            key = json.dumps(ns)
            if ok and key not in seen:
                seen.add(key)
                models.append({"table": tid, "nodes": ns, "vals": vals})
    total.failed_batches = failed
    if failed == nbatch:
        total.skipped = True
    return total, models


def pair_models(table, workers=6):
    """every ordered producer/consumer pair of data commands (EEMSModel.PairInit)"""
    d = core.scratch_dir("mpv-emp-")
    cfg = os.path.join(d, "p.cfg")
    with open(cfg, "w") as f:
        f.write("CONSTANTS MaxNodes = 6 TableId = %d\nINIT PairInit\nNEXT PairNext\nCHECK_DEADLOCK FALSE\nINVARIANT PrefixStable\nINVARIANT PairReport\n" % table)
    r = core.run_tlc("EEMSModel", cfg, workers=workers, timeout=1500)
    if r.violated or r.error or r.rc != 0:
        sys.stderr.write("MACHINERY FAILURE: EEMSModel pairs %s\n%s\n" % (r.violated, r.out[-2000:]))
        sys.exit(2)
    models, seen = [], set()
    for b in _blocks(r.out, "MODEL"):
        _, tid, ns, ok, vals = b
        key = json.dumps(ns)
        if ok and key not in seen:
            seen.add(key)
            models.append({"table": tid, "nodes": ns, "vals": vals, "pair": True})
    return r, models


TABLES = None


def table_columns(tid):
    """the concrete CSV for a table id, from the spec's own definition (parsed once from the module text)"""
    global TABLES
    if TABLES is None:
        txt = open(os.path.join(core.SPEC, "EEMSModel.tla")).read()
        body = txt[txt.index("Tables == <<") + len("Tables == "):txt.index("Table == Tables[TableId]")]
        body = re.sub(r"R\((-?\d+)\)", r"[\1, 1]", body)
        body = re.sub(r"Q\((-?\d+), (\d+)\)", r"[\1, \2]", body)
        body = body.replace("MV", "[0, 0]").replace("<<", "[").replace(">>", "]")
        TABLES = json.loads(body)
    return TABLES[tid - 1]


def num_text(r):
    if r[1] == 1:
        return str(r[0])
    return repr(r[0] / r[1])


def param_text(v):
    if isinstance(v, str):
        return v
    if v == [] or isinstance(v[0], list):
        return "[%s]" % ", ".join(num_text(x) for x in v)
    return num_text(v)


def render(model, order, rng, extras=True, metadata=True, variant=0):
    ns = model["nodes"]
    names = ["N%d" % (k + 1) for k in range(len(ns))]
    cols = {c[0]: c[1] for c in table_columns(model["table"])}
    cmds = []
    deps = {}
    for k, (cmd, params, ins) in enumerate(ns):
        args = []
        if cmd == "EEMSRead":
            args += ["InFileName = in.csv", "InFieldName = %s" % ins, "MissingVal = %d" % sentinel(model["table"], ins, variant)]
            if cols[ins][0] == "i":
                args.append("DataType = Integer")
            deps[names[k]] = []
        else:
            refs = [names[i - 1] for i in ins]
            deps[names[k]] = refs
            if len(ins) == 1 and cmd not in ("FuzzyOr", "FuzzyAnd", "FuzzyUnion", "FuzzySelectedUnion", "FuzzyWeightedUnion", "Sum", "Multiply", "Minimum", "Maximum",
                                             "Mean", "WeightedSum", "WeightedMean"):
                args.append("InFieldName = %s" % refs[0])
            elif cmd in ("AMinusB", "ADividedByB"):
                args += ["A = %s" % refs[0], "B = %s" % refs[1]]
            else:
                args.append("InFieldNames = [%s]" % ", ".join(refs))
            for pn, pv in params:
                args.append("%s = %s" % (pn, param_text(pv)))
        if metadata and rng.random() < 0.4:
            # metadata may be written anywhere among the arguments
            args.insert(rng.randint(0, len(args)), 'Metadata = [DisplayName: "node %d", Units: m]' % (k + 1))
        cmds.append((names[k], cmd, args))
    if extras:
        allnames = list(names)
        cmds.append(("Out", "EEMSWrite", ["OutFileName = out.csv", "OutFieldNames = [%s]" % ", ".join(allnames)]))
        deps["Out"] = allnames
        pick = rng.choice(names)
        cmds.append(("Shown", "PrintVars", ["InFieldNames = [%s, %s]" % (pick, names[0]), "OutFileName = shown.txt"]))
        deps["Shown"] = [pick, names[0]]
        mid = rng.choice(names)
        cmds.append(("Dup", "Copy", ["InFieldName = %s" % mid]))
        deps["Dup"] = [mid]
    idx = list(range(len(cmds)))
    if order == "reversed":
        idx.reverse()
    elif order.startswith("perm"):
        rng.shuffle(idx)
    lines = []
    for i in idx:
        n, c, a = cmds[i]
        if rng.random() < 0.5:
            lines.append("%s = %s(%s)" % (n, c, ", ".join(a)))
        else:
            lines.append("%s = %s(\n    %s\n)" % (n, c, ",\n    ".join(a)))
    return "\n".join(lines) + "\n", names, deps


_W = {}


def _init():
    core.sut()
    import warnings

    warnings.simplefilter("ignore")
    import numpy

    numpy.seterr(all="ignore")
    from . import tracer

    _W["tracer"] = tracer
    _W["root"] = core.scratch_dir("mpv-model-")


def sentinel(tid, colname, variant=0):
    """the number that marks a missing cell of this column: one that is not among the column's values, drawn from
    the classic -9999, zero (a falsy number) and small integers (the choice rotates with the column and the variant)"""
    cols = table_columns(tid)
    k = [c[0] for c in cols].index(colname)
    present = {c[0] / c[1] for c in cols[k][1][1] if c[1] != 0}
    cands = [-9999, 0, 7, -3]
    for j in range(len(cands)):
        s = cands[(k + variant + j) % len(cands)]
        if s not in present:
            return s
    return MISSING


def csv_text(tid, variant=0):
    cols = table_columns(tid)
    n = len(cols[0][1][1])
    rows = [",".join(c[0] for c in cols)]
    for r in range(n):
        rows.append(",".join((str(sentinel(tid, c[0], variant)) if c[1][1][r][1] == 0 else num_text(c[1][1][r])) for c in cols))
    return "\n".join(rows) + "\n"


def run_one(job):
    jid, model, order, seed = job
    import numpy as np
    from mpilot.program import Program

    tracer = _W["tracer"]
    rng = random.Random(seed)
    variant = jid % 4
    src, names, deps = render(model, order, rng, variant=variant)
    wd = os.path.join(_W["root"], "m%d" % jid)
    os.makedirs(wd)
    with open(os.path.join(wd, "in.csv"), "w") as f:
        f.write(csv_text(model["table"], variant))
    tracer.reset()
    out = io.StringIO()
    obs = []
    ev = []
    err = None
    with contextlib.redirect_stdout(out):
        try:
            p = Program.from_source(src, libraries=decl.CSV_LIBS, working_dir=wd)
            tracer.install()
            tracer.EV.append({"ev": "call_run"})
            p.run()
            tracer.EV.append({"ev": "ret_run", "ok": True, "cls": "", "cause": ""})
        except BaseException as e:
            cls, is_mp, _, cause = tracer.classify(e)
            err = "%s: %s" % (cls, str(e)[:300])
            tracer.EV.append({"ev": "ret_run", "ok": False, "cls": cls, "cause": cause})
            p = locals().get("p")
    for n in names:
        c = p.commands.get(n) if p is not None else None
        if c is None or not c.is_finished or not isinstance(c._result, np.ndarray):
            obs.append(["NoResult", []])
        else:
            m = np.ma.getmaskarray(c._result).ravel()
            d = np.ma.getdata(c._result).ravel()
            obs.append(["ok", [[0, 0] if m[i] else snap(d[i]) for i in range(len(d))]])
    wrote = sorted(os.listdir(wd))
    shutil.rmtree(wd, ignore_errors=True)
    ev = [e for e in tracer.EV if e["ev"] != "clean"]
    trace = {"id": jid, "strict": False, "deps": deps, "fails": [], "late": [], "ignored": {n: [] for n in deps}, "ev": ev}
    return {"id": jid, "table": model["table"], "nodes": model["nodes"], "obs": obs}, trace, src, err, wrote


def check_C02(tier):
    from . import engine

    chk = core.Check("C02", tier)
    core.sut()
    nsim = 12 if tier == "quick" else 250
    sizes = [(1, 5), (2, 6), (3, 7)] if tier == "quick" else [(1, 5), (2, 6), (3, 7), (1, 7), (2, 4), (3, 6)]
    res = [None] * len(sizes)
    pres = {}

    def work(i):
        res[i] = simulate(sizes[i][0], sizes[i][1], nsim, core.SEED + i)

    def pwork(t):
        pres[t] = pair_models(t)

    # (table 2 always: it is the one in which only the first of the two base columns has a missing cell)
    ptables = sorted({2, core.SEED % 3 + 1}) if tier == "quick" else [1, 2, 3]
    ths = [threading.Thread(target=work, args=(i,)) for i in range(len(sizes))] + [threading.Thread(target=pwork, args=(t,)) for t in ptables]
    for t in ths:
        t.start()
    for t in ths:
        t.join()
    models = []
    for (tid, n), (r, ms) in zip(sizes, res):
        if getattr(r, "skipped", False):
            chk.note("shape-drift: no overflow-free sample of table %d / %d commands in 5 attempts; that size was skipped" % (tid, n))
            continue
        if getattr(r, "failed_batches", 0):
            chk.note("shape-drift: %d simulation batch(es) of table %d / %d commands had no overflow-free sample in 5 attempts and were skipped" % (r.failed_batches, tid, n))
        chk.add_tlc("EEMSModel simulate table %d, %d commands" % (tid, n), r, "MaxNodes=%d TableId=%d invariant PrefixStable; -simulate num=%d" % (n, tid, nsim))
        models += ms
    cap = 400 if tier == "quick" else 20000
    rng = random.Random(core.SEED)
    if len(models) > cap:
        models = rng.sample(models, cap)
    orders = ["created", "reversed", "perm1", "perm2"] if tier == "quick" else ["created", "reversed", "perm1", "perm2", "perm3", "perm4"]
    jobs = []
    for mi, m in enumerate(models):
        for oi, o in enumerate(orders):
            jobs.append((len(jobs), m, o, core.SEED * 1000003 + mi * 17 + oi))
    npairs = 0
    for t in ptables:
        r, ms = pres[t]
        chk.add_tlc("EEMSModel producer/consumer pairs, table %d" % t, r, "INIT PairInit: every ordered pair of data commands with compatible fuzziness")
        npairs += len(ms)
        for mi, m in enumerate(ms):
            for oi, o in enumerate(["created", "reversed"]):
                jobs.append((len(jobs), m, o, core.SEED * 7919 + mi * 13 + oi))
        models = models + ms
    chk.cov["producer_consumer_pairs"] = npairs
    with Pool(core.NCPU, initializer=_init) as pool:
        results = pool.map(run_one, jobs, chunksize=max(1, len(jobs) // (core.NCPU * 8)))
    chk.cov["evaluations"] += len(results)
    chk.cov["distinct_nontrivial"] += len([m for m in models if max(len(n[2]) if n[0] != "EEMSRead" else 0 for n in m["nodes"]) >= 2])
    # one validation record per model: the graph is evaluated once by TLC, every run (order) of it is compared
    groups = {}
    for (rec, trace, src, err, wrote), job in zip(results, jobs):
        groups.setdefault(json.dumps([rec["table"], rec["nodes"]]), []).append((rec, src, err, wrote, job))
    records, members = [], {}
    for gi, (key, runs) in enumerate(sorted(groups.items())):
        records.append({"id": gi, "table": runs[0][0]["table"], "nodes": runs[0][0]["nodes"], "obs": [r[0]["obs"] for r in runs]})
        members[gi] = runs
    verdicts = validate_models(chk, records)
    chk.cov["traces_validated_against_impl"] += len(results) - len(records)   # every run is one validated observation
    for gi, runs in members.items():
        v, k, ri = verdicts[gi]
        if v != "ok":
            rec, src, err, wrote, job = runs[ri - 1]
            node = rec["nodes"][k - 1]
            chk.finding("C02:model:%s:%s" % (v, node[0]), "result of %s (node %d) differs from the evaluation of the graph: %s%s" % (node[0], k, v, " (run failed: %s)" % err if err else ""),
                        {"source": src, "order": job[2], "node": node, "observed": rec["obs"][k - 1], "run_error": err})
            continue
        for rec, src, err, wrote, job in runs:
            if "out.csv" not in wrote or "shown.txt" not in wrote:
                chk.finding("C02:model:OutputMissing", "the model ran but its writers left no output", {"source": src, "files": wrote})
            elif len(chk.cov["samples"]) < 3 and rec["id"] % 173 == 9:
                chk.sample({"source": src, "order": job[2], "observed_results": rec["obs"]})
    # the same runs, seen by the engine specification (real commands instead of probes)
    traces = [r[1] for r in results]
    ev = engine.validate_traces(chk, "C02", traces)
    by = {t["id"]: t for t in traces}
    src_of = {r[0]["id"]: r[2] for r in results}
    for tid, (verdict, pos) in ev.items():
        if verdict != "ok":
            chk.finding("C02:engine:%s" % verdict, "engine trace of a real-command model rejected by MPRunAbsTrace: %s" % verdict,
                        {"source": src_of[tid], "events": by[tid]["ev"][:pos][-25:]})
    chk.cov["rule"] = ("TLC -simulate runs the builder state machine EEMSModel (typed wiring: fuzzy inputs only from fuzzy producers, 1-3 inputs, all 33 data commands with parameter options) on three input tables "
                       "(float/integer columns, missing cells) to models of 5-7 commands (thorough 4-8), computes the expected array of every node through EEMSOps.Sem and checks PrefixStable; admissible models "
                       "are rendered as command files in creation order, reversed and random permutations (forward references), with random Metadata, with extra consumers attached (a writer over all nodes, "
                       "PrintVars to a file, a Copy of an intermediate), run through from_source + run on a CSV of the table; TLC validates every node's observed array against Val (EEMSModelTrace) and the "
                       "recorded engine events against MPRunAbsTrace. non-trivial = model containing a command with at least two inputs")
    chk.cov["exhaustive"] = False
    chk.assumptions += ["float results within 1e-9 relative of a rational with denominator <= 1 000 000 are identified with it", "result dtype / array subclass are not compared",
                        "z-score commands only on data with rational standard deviation; data-dependent commands only on data with >= 2 distinct values"]
    return chk.finish()


def validate_models(chk, records):
    """the input table is a constant of EEMSModel: one group of TLC runs per table"""
    tdir = core.scratch_dir("mpv-emt-")
    files, cfgs = [], []
    for tid in sorted({r["table"] for r in records}):
        part = [r for r in records if r["table"] == tid]
        tcfg = os.path.join(tdir, "t%d.cfg" % tid)
        with open(tcfg, "w") as f:
            f.write("CONSTANTS MaxNodes = 8 TableId = %d\nINIT TInit\nNEXT TNext\nCHECK_DEADLOCK FALSE\nINVARIANT TReport\n" % tid)
        shards = min(6, max(1, len(part) // 100))
        for s in range(shards):
            path = os.path.join(tdir, "t%d_%d.ndjson" % (tid, s))
            with open(path, "w") as f:
                for rec in part[s::shards]:
                    f.write(json.dumps(rec) + "\n")
            files.append(path)
            cfgs.append(tcfg)
    results = [None] * len(files)

    def tw(i):
        results[i] = core.run_tlc("EEMSModelTrace", cfgs[i], workers=1, env={"TRACE_FILE": files[i]}, timeout=2400)

    ths = [threading.Thread(target=tw, args=(i,)) for i in range(len(files))]
    for t in ths:
        t.start()
    for t in ths:
        t.join()
    verdicts = {}
    tot = core.TLCResult()
    for tr in results:
        if tr.rc != 0 or tr.error:
            core.tlc_fail(tr, "EEMSModelTrace")
        for v in core.parse_printt(tr.out, "VERDICT"):
            verdicts[v[1]] = (v[2], v[3], v[4])
        tot.states += tr.states
        tot.distinct += tr.distinct
        tot.wall = max(tot.wall, tr.wall)
    chk.add_tlc("EEMSModelTrace validation (%d shards)" % len(files), tot, "TRACE_FILE=<observed model results>")
    if len(verdicts) != len(records):
        sys.stderr.write("MACHINERY FAILURE: %d verdicts for %d models\n" % (len(verdicts), len(records)))
        sys.exit(2)
    chk.cov["traces_validated_against_impl"] += len(records)
    return verdicts
