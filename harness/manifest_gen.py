"""Regenerates /verif/MANIFEST.json from the table below:  /venv/bin/python -m harness.manifest_gen"""
import json
import os

VERIF = os.path.dirname(os.path.dirname(os.path.abspath(__file__)))

BASE_NOTE = ("TLC 1.8 (tla2tools.jar) and /venv/bin/python with the repository's own dependencies; the SUT is a scratch copy of "
             "/repo/mpilot's working tree imported in-process; bounded model: nothing is claimed beyond the stated bounds.")

CHECKS = {
    "C01": dict(
        engine="engine",
        technique="TLC model checking of MPRun.tla (all DAGs, all call histories) + replay of every terminal state on the real engine + TLC trace validation against MPRunAbsTrace.tla",
        text="TLC exhaustively explores the implementation-shaped engine spec MPRun for every acyclic program on 3 commands (with an optional failing command, histories of 3 API calls) and on 4 commands (1 call; thorough: 2 calls + liveness), checking ExactlyOnce, NoReexec, RunCompletes, Quiescent, TermCorrect, FinishedStays; every terminal state is replayed on the real Program/Command with probe commands and compared (outcome, execution counts, Herbrand values), and every recorded event trace is validated by TLC against the abstract engine spec, whose clauses are the property's promises.",
        design="4/C01, 2.1",
        note=BASE_NOTE + " Probe commands stand for arbitrary commands (the engine never looks inside execute).",
    ),
    "C14": dict(
        engine="engine",
        technique="TLC model checking of MPRun.tla over all cyclic programs + replay on the real engine + TLC trace validation (MPRunAbsTrace.tla)",
        text="TLC explores MPRun for every program on 3 commands whose reference graph has a cycle (thorough: also 4 commands, longer histories), checking CyclicRejected, StackBounded, NoSpuriousRecursive; the pinned design (no cycle guard, no sweep) is refuted by the negative configs in selftest. Every terminal state is replayed on the real engine and its trace validated: ReturnedOk, StackOverflow, WrongError, Reentered are named clauses.",
        design="4/C14, 2.1",
        note=BASE_NOTE + " The interpreter recursion limit is lowered to 400 during replays.",
    ),
}

NOT_YET = "check not built yet (build in progress; see DESIGN.md section 4b build order)"


def main():
    props = [json.loads(l)["id"] for l in open(os.path.join(VERIF, "properties.jsonl"))]
    checks = []
    for p in props:
        if p not in CHECKS:
            continue
        c = CHECKS[p]
        checks.append({
            "property_id": p,
            "quick_cmd": "./check %s --tier quick" % p,
            "thorough_cmd": "./check %s --tier thorough" % p,
            "evidence_file": "evidence/%s.json" % p,
            "replay_cmd_template": "./check %s --replay {path}" % p,
            "engine": c["engine"],
            "level_claimed": {"category": "model_checking", "text": c["text"], "design_ref": c["design"]},
            "level_note": c["note"],
            "technique": c["technique"],
        })
    m = {
        "version": 1,
        "setup_cmd": "true",
        "hooks": {
            "guard": "MPILOT_VERIF",
            "enable": "no source hooks are needed: the tracer wraps public attributes (Command.run/result/validate_params, every execute, Parameter.clean, Parser.parse) of a scratch copy of /repo/mpilot at run time",
            "baseline_off_cmd": "cd /repo && /venv/bin/python -m pytest -ra -q -p no:cacheprovider --timeout=900 --continue-on-collection-errors",
            "source_commits": [],
            "add_only": True,
        },
        "engines": [
            {"name": "engine", "path": "harness/engine.py", "serves_properties": ["C01", "C14"],
             "kind_free_text": "TLC (spec/MPRun.tla, spec/MPRunAbsTrace.tla) + replay/tracing harness"},
        ],
        "checks": checks,
        "notes": "Model-based verification with explicit TLA+ specifications (spec/*.tla) decided by TLC and bound to the code by replay and trace validation; see DESIGN.md. known_findings.json lists genuine defects (open) and repaired ones (fixed).",
        "not_applicable": [{"property_id": p, "reason": NOT_YET} for p in props if p not in CHECKS],
    }
    with open(os.path.join(VERIF, "MANIFEST.json"), "w") as f:
        json.dump(m, f, indent=1)
    print("MANIFEST.json: %d checks, %d not applicable" % (len(checks), len(m["not_applicable"])))


if __name__ == "__main__":
    main()
