"""Regenerates /verif/MANIFEST.json from the table below:  /venv/bin/python -m harness.manifest_gen"""
import json
import os

VERIF = os.path.dirname(os.path.dirname(os.path.abspath(__file__)))

BASE_NOTE = ("TLC 1.8 (tla2tools.jar) and /venv/bin/python with the repository's own dependencies; the SUT is a scratch copy of "
             "/repo/mpilot's working tree imported in-process; bounded model: nothing is claimed beyond the stated bounds.")

CHECKS = {
    "C01": dict(
        engine="engine",
        technique="TLC model checking of MPRun.tla (all DAGs, all call histories) + replay of every terminal state on the real engine + TLC trace validation against MPRunAbsTrace.tla; TLAPS proof (MPRunAbsProof.tla) of the abstract engine for any number of commands",
        text="TLC exhaustively explores the implementation-shaped engine spec MPRun for every acyclic program on 3 commands (every edge direct or listed; optionally one failing command, one reference the consumer never reads, one command returning None, or one command added with add_command after the first call; histories of 3 API calls) and on 4 commands (1 call; thorough: 2 calls + liveness), checking ExactlyOnce, NoReexec, RunCompletes, Quiescent, TermCorrect, FinishedStays; terminal states are replayed on the real Program/Command with probe commands and compared (outcome, execution counts, Herbrand values), every recorded event trace is validated by TLC against the abstract engine spec, whose clauses are the property's promises, and so is every successful Program.run() performed by the repository's own tests. Every fifth replay assembles the program through the API (add_command with Command objects). TLC checks that MPRun refines the abstract engine MPRunAbs, whose safety (finished dependencies, value = term of current values, finished forever) tlapm proves for an arbitrary set of commands at every run.",
        design="4/C01, 2.1",
        note=BASE_NOTE + " Probe commands stand for arbitrary commands (the engine never looks inside execute).",
    ),
    "C14": dict(
        engine="engine",
        technique="TLC model checking of MPRun.tla over all cyclic programs + replay on the real engine + TLC trace validation (MPRunAbsTrace.tla); TLC model checking of MPValidate.tla (InitCycles: cycles through every built-in command) + replay + trace validation (MPValidateTrace.tla)",
        text="TLC explores MPRun for every program on 3 commands whose reference graph has a cycle (thorough: also 4 commands, longer histories), checking CyclicRejected, StackBounded, NoSpuriousRecursive; the pinned design (no cycle guard, no sweep) is refuted by the negative configs in selftest. Every terminal state is replayed on the real engine and its trace validated: ReturnedOk, StackOverflow, WrongError, Reentered are named clauses. Random five-command cyclic programs are replayed and validated the same way, and MPValidate (INIT InitCycles) closes a reference cycle through every result parameter of every built-in command (back edge chosen so that all references are well-typed; self-loops for untyped parameters; zero weights on the back edge): invariant CyclicRejected on the pipeline model, every program run on the real libraries and its trace validated by MPValidateTrace (C14.ReturnedOk / C14.WrongError).",
        design="4/C14, 2.1",
        note=BASE_NOTE + " The interpreter recursion limit is lowered to 400 during replays.",
    ),
}

EEMS_NOTE = BASE_NOTE + (" Arithmetic is exact rationals in the model; a float result within 1e-9 (relative) of a rational with denominator <= 1 000 000 is identified with it; "
                         "commands are driven through execute() with finished producer commands (the full pipeline is C02's subject).")
CHECKS.update({
    "C03": dict(engine="eems", technique="TLC: MaskRule invariant on EEMSOps.tla over EEMSCases families + TLC validation (EEMSOpsTrace.tla) of every observed result mask; payload variants compared bit-for-bit",
                text="TLC checks on the rational semantics that a result cell is missing iff an input cell there is missing or the operation is undefined, for every lattice point/short array of every family (all 33 data commands); every case is executed on the real commands with four different payloads beneath the missing cells (including arrays produced by the real CSV reader) and TLC validates each observed mask; results across payload variants must be bit-identical (variants also present complete arrays as plain ndarrays and let the CSV reader declare a missing value next to a data value). The NetCDF reader and writer are run on the NetcdfIO cases that have missing cells and validated by TLC (NetcdfIOTrace).",
                design="4/C03, 2.7", note=EEMS_NOTE),
    "C04": dict(engine="eems", technique="TLC: FuzzyInRange invariant on EEMSOps.tla + OutOfRange clause of EEMSOpsTrace.tla on every observation; exact range check on raw floats; stretched random parameters",
                text="TLC checks InRange for the 14 fuzzy-producing commands on lattices that exceed [-1,1] for inputs, weights (negative, zero-sum), thresholds, category and curve values; every case is executed and TLC validates the observation (OutOfRange clause); raw float results are compared exactly with the bounds; a random pass stretches parameters up to 1e6; every family is run once more on single-precision data; fuzzy results that lay in [-1, 1] must still do so after any command (incl. CvtFromFuzzy) has consumed them.",
                design="4/C04, 2.7", note=EEMS_NOTE),
    "C05": dict(engine="eems", technique="TLC: Equivariant invariant (Sem commutes with every cell permutation) + TLC validation of rank-2/rank-3 reshaped and permuted executions against the un-arranged case",
                text="Every family is executed 1-D and again reshaped to rank-2/rank-3 grids (length-1 axes included) and under common permutations; TLC validates each arrangement's observation against EEMSOps.Sem of the original case and checks Equivariant on the array-level families; only differences between the rearranged run and the 1-D baseline are findings.",
                design="4/C05, 2.7", note=EEMS_NOTE),
    "C06": dict(engine="eems", technique="TLC: EEMS operator definitions + algebra invariants (FuzzyAlgebra, OrderInvariant) on the k/4 lattice; TLC validation of all executed lattice points; off-lattice metamorphic identities",
                text="TLC enumerates every lattice point for 1-3 inputs (thorough 4-5) with all k, directions and a weight lattice, checks the algebra on EEMSOps.Sem in every state, and validates the real operators' results at every point; random float data are additionally checked for order invariance, Sel(1)=Or/And, Sel(n)=Union and De Morgan.",
                design="4/C06, 2.7", note=EEMS_NOTE),
    "C07": dict(engine="eems", technique="TLC: arithmetic definitions + ArithAlgebra/OrderInvariant invariants over every int/float kind assignment; TLC validation of all executed points and error entries",
                text="TLC enumerates lattice points for 1-3 inputs (thorough 4) under every assignment of integer/float element kinds, weight vectors, zero divisors and the error entries (weight count, empty list, mixed shapes), checks commutativity and identities on Sem, and validates the real commands' values, masks and error classes.",
                design="4/C07, 2.7", note=EEMS_NOTE),
    "C08": dict(engine="eems", technique="TLC: conversion/normalisation definitions + ConvAlgebra/ConvArrayAlgebra invariants; TLC validation of all executed cells and short arrays",
                text="TLC enumerates cells x threshold pairs/directions/category tables/curves (all control-point orders) and every short array for the data-dependent conversions, checks the documented relations on Sem (thresholds -> +1/-1, inverse, variant = clamp of Normalize variant, order irrelevance, monotonicity) and validates the 17 real commands' results.",
                design="4/C08, 2.7", note=EEMS_NOTE + " z-score commands only on data with rational standard deviation."),
})

CHECKS.update({
    "C20": dict(engine="params", technique="TLC: decision table MPParamsTable.Clean with Idempotent/Typed/ItemWise/ErrIsParameterError invariants over every cell; TLC validation (MPParamsTrace.tla) of clean() observations on the real Parameter classes",
                text="TLC enumerates every (parameter configuration x raw value kind x environment) cell of the cleaning table (about 30 000 cells) and checks the laws on the table; every cell is executed on the real classes with 2-3 concrete representatives (clean, clean again, clean of the cleaned value, deep comparison of raw argument and program, execution counter) and TLC validates each observation against the table: Type, Value, ErrorClass, ForeignException, NotRepeatable, NotIdempotent, Mutated.",
                design="4/C20, 2.4", note=BASE_NOTE + " Cells the documentation leaves open are 'unspecified': any documented type or parameter error is accepted there, never another exception."),
    "C12": dict(engine="validate", technique="TLC: MPValidate.tla pipeline (load / pre-pass / execute) over declarations generated from the live classes, invariants AcceptIffWellFormed, ErrorIsAFault, RejectBeforeEffects; replay of every program + TLC trace validation (MPValidateTrace.tla) against the declarative Faults(prog)",
                text="Declarations are exported from the live command classes; TLC builds a valid model around every declared command, injects every single fault at two positions (about 4 900 programs for the CSV libraries; thorough adds NetCDF), explores the pipeline step by step and checks acceptance iff well-formed, the reported error being one of the program's faults, and rejection before any execution or file; every program is rendered, run with the execute tracer and a directory snapshot, compared with the model's terminal state, and its trace validated by TLC (incl. the exact set a MissingParameters error names and the arguments execute() receives, extra ones for allow_extra_inputs commands). MPDeclDocs compares the live declarations with those parsed from docs/user/*.rst (required/optional, kind; fuzziness for the probe library). Replay modes: from source, with an empty working directory from inside the model's folder, assembled through the API, and completed through add_command after a first run.",
                design="4/C12, 2.3", note=BASE_NOTE + " Well-formedness is relative to the live declarations. Execute-time semantic errors are not ill-formedness."),
    "C13": dict(engine="validate", technique="TLC: EscapeTyped on MPValidate over the full kind-confusion matrix + TLC validation of the recorded outcome classes; MPCli.tla (incl. liveness) + MPCliTrace.tla validation of command-line runs",
                text="Every declared command x parameter x every raw value kind is built by MPValidate(AllKinds) and run through from_source+run; TLC validates the class of whatever escapes. A text fuzz (character edits and replacement of argument values by values of other kinds / extreme literals) checks that parse and load end in success, SyntaxError or an MPilot error. Run-time scenarios for each library error class and CSV content faults, plus a sample of the matrix, are also run through the command-line tool and validated against MPCliTrace (non-zero exit, banner and problem/solution text on stderr, no traceback).",
                design="4/C13, 2.3, 2.9", note=BASE_NOTE + " The CLI is invoked in-process through its click entry point."),
})

CHECKS.update({
    "C10": dict(engine="syntax", technique="TLC: renderer state machine MPSyntax.tla (RoundTrip, CorruptionRejected; exhaustive for small programs, -simulate for large) + MPLex.tla (QuoteRoundTrip over all class strings); every rendering / corruption / string parsed by the real parser and validated by TLC (MPSyntaxTrace.tla, MPLexTrace.tla) against Denote(tokens)",
                text="Every behaviour of the renderer is one concrete rendering (spaces, tabs, LF/CRLF, comments, blank lines, trailing commas, quoting styles) of an abstract program with all value kinds; TLC checks RoundTrip and CorruptionRejected on the token level and the quote/unquote round trip on every string over 21 character classes; the real parser's tree for every rendering (2-4 lexeme variants each) is abstracted and validated by TLC against the specification's own parser, every single-token corruption of a sample of renderings must raise SyntaxError, and every class string is pushed through the real lexer quoted both ways and bare.",
                design="4/C10, 2.6", note=BASE_NOTE + " Only the core language is generated (see DESIGN.md Appendix B); larger programs are sampled by TLC -simulate, not enumerated."),
    "C11": dict(engine="syntax", technique="TLC: LinesTrue on MPSyntax's renderer, MPParserObj.tla history invariants, MPValidate error locations; real parse-tree / error / CLI line numbers validated by TLC (MPSyntaxTrace, MPParserObjTrace, MPValidateTrace clause C11.ErrorLine, MPCliTrace clause C11.CliContextLine)",
                text="The renderer state machine carries the true start line of every node (TLC checks its bookkeeping against a recount); the real parse tree's lineno of every command, argument, value, list element and tuple pair is validated against it for every rendering; every history of parses on shared Parser objects is replayed (MPParserObj); every fault of the C12 matrix must raise an error whose lineno locates the offending command or argument; the command-line tool's marked line must be that line.",
                design="4/C11, 2.6, 2.3", note=BASE_NOTE),
})

CHECKS.update({
    "C15": dict(engine="serial", technique="TLC: SerializeRoundTrip (Denote(Serialize(p)) = p) on MPSerialize.tla over programs with every parameter kind; real to_string / from_source round trips in three construction modes validated by TLC (MPSerializeTrace.tla)",
                text="TLC enumerates programs over a command with every parameter kind and value ids for strings (quotes, backslashes, delimiters, non-ASCII, empty, number-like, newlines) and numbers (big integers, decimals, exponent forms), checking the canonical serialisation denotes the program; each program is built from source, through add_command with raw values and with already-clean values, serialised by the real to_string, loaded back and compared (structure, cleaned values, results after run).",
                design="4/C15, 2.6", note=BASE_NOTE + " Programs are over the verification library's Echo command (all parameter classes) and producers; inf/nan are outside the quantifier."),
    "C16": dict(engine="eems2", technique="TLC: MPEems2.tla over the live name table and declarations (TargetsExist, ImageIsV3, ConvertIdempotent, ShapeKept); EEMS 2.0 files and their images loaded by the real loader and validated by TLC (MPEems2Trace.tla)",
                text="The live EEMS_COMMANDS table and command declarations are exported; TLC reports names whose target does not exist and, for every other name, builds EEMS 2.0 files in every style (no result name / NewFieldName / OutFileName / explicit result, first or last among MPilot commands) with their image under Convert; each file and its image are rendered, loaded and run by the real loader and compared; TLC validates the loaded structure against Convert(v2).",
                design="4/C16, 2.6", note=BASE_NOTE + " MPilot-style commands inside EEMS 2.0 files are generated without NewFieldName/OutFileName."),
})

CHECKS.update({
    "C19": dict(engine="registry", technique="TLC: HistoryIndependent on MPRegistry.tla over all histories of registry operations (exhaustive length 2, simulated length 3); every history replayed in a freshly forked process and validated by TLC (MPRegistryTrace.tla) against Ideal(libraries)",
                text="TLC explores histories of module imports, run-time class definitions and Program constructions over prefix-related, nested, same-name and built-in CSV/NetCDF libraries and checks that every program's table equals Ideal(libraries) computed from the requested libraries and the static module contents alone (duplicates fail); the pinned string-prefix rule is refuted by a negative config. Every history is replayed on the real process-global registry in a fresh process and its tables validated by TLC.",
                design="4/C19, 2.5", note=BASE_NOTE + " Synthetic libraries live in probe_libs/ (vlib_a, vlib_a.sub, vlib_ab, vlib_c)."),
})

CHECKS.update({
    "C09": dict(engine="heap", technique="TLC: Immutable (action property) + FuzzyInRange on MPHeap.tla over all histories of producer/consumer kinds; real consumer histories with per-object digests validated by TLC (MPHeapTrace.tla)",
                text="TLC checks on the aliasing model that no history of out-of-place, copy-then-in-place, alias-returning and alias-then-clamp consumers changes the visible part of an existing result object, and that this rests on fuzzy producers being in range (negative configs refute it otherwise); on the real code every consumer command runs with every compatible finished producer (1-3 inputs, repeats, alias-returning single-input forms) and in random histories, shape/dtype/mask/unmasked-value digests of every finished result are taken after each execution, and TLC validates that no known object's digest changes.",
                design="4/C09, 2.2", note=BASE_NOTE + " Bytes beneath a mask may change."),
})

CHECKS.update({
    "C17": dict(engine="csvio", technique="TLC: CsvIO.tla Read/Write definitions with RowOrder, ColumnIndependent, MaskExact, RoundTrip, ErrorLineIsPhysical over all small tables; files written to disk, real EEMSRead/EEMSWrite observations validated by TLC (CsvIOTrace.tla); values compared by float.hex identity",
                text="TLC enumerates tables (rows, blank lines, short rows, non-numeric cells, the missing value, header names needing quoting), requested fields, MissingVal and element types and checks the reader/writer laws on the definitions; the two-row tables are concretised with doubles chosen per run (random bit patterns, subnormals, extremes, negative zero, neighbours of the missing value; LF/CRLF) and pushed through the real reader and writer (the column and its reverse written under names that need quoting, read back); every observation is validated by TLC: order, mask exactly at cells equal to the missing value, element type, error class and physical line, header order, bit-identical round trip.",
                design="4/C17, 2.9", note=BASE_NOTE + " Integer reads only on integral values; printing of missing cells is outside the round trip."),
})

CHECKS.update({
    "C18": dict(engine="netcdfio", technique="TLC: NetcdfIO.tla Read/Written definitions with ShapeKept, DefaultIsFloat, MissingMasked, FuzzyInRange, PositiveChecked, RoundTripUnionMask over all small grids and option combinations; datasets made with netCDF4, real EEMSRead/EEMSWrite observations validated by TLC (NetcdfIOTrace.tla)",
                text="TLC enumerates grids (1-D, 2x2, 1x3; float/integer; every placement of missing cells; values negative, fractional, inside and beyond the fuzzy padding) with every DataType and MissingValue choice, and every pair of results written together; the laws are checked on the definitions; each case is materialised with netCDF4 (coordinate variables, optional CRS variable), read by the real EEMSRead or written by the real EEMSWrite on a template and read back, the dimension variables and coordinates compared with the template; TLC validates shape, element kind, values, mask (union of all written results' masks), option errors.",
                design="4/C18, 2.9", note=BASE_NOTE + " MissingValue is not combined with the Positive/Fuzzy checks or with rounding; rounding ties are not generated."),
})

CHECKS.update({
    "C02": dict(engine="model", technique="TLC -simulate of the builder state machine EEMSModel.tla (typed random DAGs with expected arrays through EEMSOps.Sem, PrefixStable) + TLC validation of whole-model runs in several file orders (EEMSModelTrace.tla) and of their engine events (MPRunAbsTrace.tla)",
                text="Every behaviour of the builder is a well-typed model over the 33 data commands on one of three input tables; TLC computes each node's expected array and checks that it depends on the node's sub-graph only; admissible models are rendered in creation order, reversed and random permutations, with metadata and extra consumers (writer over all nodes, PrintVars, Copy), run through from_source + run on CSV data, and TLC validates every node's result against the evaluation of the graph and the recorded engine events against the abstract engine specification.",
                design="4/C02, 2.8", note=EEMS_NOTE + " Models are sampled by TLC -simulate (quick about 400 models x 4 orders), not enumerated."),
})

NOT_YET = "check not built yet (build in progress; see DESIGN.md section 4b build order)"


def main():
    props = [json.loads(l)["id"] for l in open(os.path.join(VERIF, "properties.jsonl"))]
    checks = []
    for p in props:
        if p not in CHECKS:
            continue
        c = CHECKS[p]
        checks.append({
            "property_id": p,
            "quick_cmd": "./check %s --tier quick" % p,
            "thorough_cmd": "./check %s --tier thorough" % p,
            "evidence_file": "evidence/%s.json" % p,
            "replay_cmd_template": "./check %s --replay {path}" % p,
            "engine": c["engine"],
            "level_claimed": {"category": "model_checking", "text": c["text"], "design_ref": c["design"]},
            "level_note": c["note"],
            "technique": c["technique"],
        })
    m = {
        "version": 1,
        "setup_cmd": "true",
        "hooks": {
            "guard": "MPILOT_VERIF",
            "enable": "no source hooks are needed: the tracer wraps public attributes (Command.run/result/validate_params, every execute, Parameter.clean, Parser.parse) of a scratch copy of /repo/mpilot at run time",
            "baseline_off_cmd": "cd /repo && /venv/bin/python -m pytest -ra -q -p no:cacheprovider --timeout=900 --continue-on-collection-errors",
            "source_commits": [],
            "add_only": True,
        },
        "engines": [
            {"name": "engine", "path": "harness/engine.py", "serves_properties": ["C01", "C14"],
             "kind_free_text": "TLC (spec/MPRun.tla, spec/MPRunAbsTrace.tla) + replay/tracing harness"},
            {"name": "eems", "path": "harness/eems.py", "serves_properties": ["C03", "C04", "C05", "C06", "C07", "C08"],
             "kind_free_text": "TLC (spec/Rat.tla, EEMSOps.tla, EEMSCases.tla, EEMSOpsTrace.tla) + packed execution of the real commands"},
            {"name": "params", "path": "harness/paramcheck.py", "serves_properties": ["C20"],
             "kind_free_text": "TLC (spec/MPParamsTable.tla, MPParams.tla, MPParamsTrace.tla) + clean() driver"},
            {"name": "syntax", "path": "harness/syntax.py", "serves_properties": ["C10", "C11"],
             "kind_free_text": "TLC (spec/MPSyntaxDefs.tla, MPSyntax.tla, MPSyntaxTrace.tla, MPLex.tla, MPLexTrace.tla, MPParserObj.tla, MPParserObjTrace.tla) + renderer/concretiser + real parser"},
            {"name": "serial", "path": "harness/serial.py", "serves_properties": ["C15"], "kind_free_text": "TLC (spec/MPSerialize.tla, MPSerializeTrace.tla) + to_string/from_source driver"},
            {"name": "eems2", "path": "harness/eems2.py", "serves_properties": ["C16"], "kind_free_text": "TLC (spec/MPEems2.tla, MPEems2Trace.tla; MC_Eems2/MC_Decl generated) + loader driver"},
            {"name": "registry", "path": "harness/registry.py", "serves_properties": ["C19"], "kind_free_text": "TLC (spec/MPRegistry.tla, MPRegistryTrace.tla) + forked replay children"},
            {"name": "heap", "path": "harness/heap.py", "serves_properties": ["C09"], "kind_free_text": "TLC (spec/MPHeap.tla, MPHeapTrace.tla) + digest histories over the real commands"},
            {"name": "csvio", "path": "harness/csvio.py", "serves_properties": ["C17"], "kind_free_text": "TLC (spec/CsvIO.tla, CsvIOTrace.tla) + file fixtures and the real CSV reader/writer"},
            {"name": "netcdfio", "path": "harness/netcdfio.py", "serves_properties": ["C18"], "kind_free_text": "TLC (spec/NetcdfIO.tla, NetcdfIOTrace.tla) + netCDF4 fixtures and the real NetCDF reader/writer"},
            {"name": "model", "path": "harness/model.py", "serves_properties": ["C02"], "kind_free_text": "TLC (spec/EEMSModel.tla, EEMSModelTrace.tla, MPRunAbsTrace.tla) + command-file renderer and runner"},
            {"name": "validate", "path": "harness/validate.py", "serves_properties": ["C12", "C13"],
             "kind_free_text": "TLC (spec/MPValidateDefs.tla, MPValidate.tla, MPValidateTrace.tla, MPCli.tla, MPCliTrace.tla; MC_Decl generated by harness/decl.py) + renderer/runner"},
        ],
        "checks": checks,
        "notes": "Model-based verification with explicit TLA+ specifications (spec/*.tla) decided by TLC and bound to the code by replay and trace validation; see DESIGN.md. known_findings.json lists genuine defects (open) and repaired ones (fixed).",
        "not_applicable": [{"property_id": p, "reason": NOT_YET} for p in props if p not in CHECKS],
    }
    with open(os.path.join(VERIF, "MANIFEST.json"), "w") as f:
        json.dump(m, f, indent=1)
    print("MANIFEST.json: %d checks, %d not applicable" % (len(checks), len(m["not_applicable"])))


if __name__ == "__main__":
    main()
