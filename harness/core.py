"""Shared machinery: SUT snapshot, TLC runner, TLA+ value parser, evidence, findings.

Everything here is stdlib-only; it runs under /venv/bin/python so that the SUT (mpilot and its
dependencies) can be imported in-process from a private scratch copy of /repo's working tree.
"""
from __future__ import print_function

import atexit
import json
import os
import re
import shutil
import subprocess
import sys
import tempfile
import time

VERIF = os.path.dirname(os.path.dirname(os.path.abspath(__file__)))
# results of runs against another tree (VERIF_SUT=<dir>: mutants, the pinned commit) never touch /verif/evidence
OUT = VERIF if not os.environ.get("VERIF_SUT") else os.path.join(tempfile.gettempdir(), "mpv-alt-out")
SPEC = os.path.join(VERIF, "spec")
REPO = os.environ.get("VERIF_SUT", "/repo")
SEED = int(os.environ.get("VERIF_SEED", "0") or 0)
NCPU = min(16, os.cpu_count() or 1)
TLA_JAR = "/opt/veriftools/tla/tla2tools.jar"
TLA_CP = TLA_JAR + ":/opt/veriftools/tla/CommunityModules-deps.jar"

_scratch = []


def scratch_dir(prefix="mpv-"):
    base = os.environ.get("VERIF_SCRATCH") or tempfile.gettempdir()
    d = tempfile.mkdtemp(prefix=prefix, dir=base)
    _scratch.append(d)
    return d


@atexit.register
def _cleanup():
    if os.environ.get("VERIF_KEEP"):
        return
    for d in _scratch:
        shutil.rmtree(d, ignore_errors=True)


_SUT = None


def sut():
    """Copy /repo/mpilot (current working tree) to a scratch dir and put it first on sys.path."""
    global _SUT
    if _SUT:
        return _SUT
    d = scratch_dir("mpv-sut-")
    shutil.copytree(
        os.path.join(REPO, "mpilot"),
        os.path.join(d, "mpilot"),
        ignore=shutil.ignore_patterns("__pycache__", "*.pyc"),
    )
    sys.path.insert(0, d)
    sys.path.insert(1, os.path.join(VERIF, "probe_libs"))
    os.environ["PYTHONPATH"] = d + os.pathsep + os.path.join(VERIF, "probe_libs")
    sys.dont_write_bytecode = True
    for k in [k for k in sys.modules if k == "mpilot" or k.startswith("mpilot.")]:
        del sys.modules[k]
    _SUT = d
    return d


def repo_rev():
    try:
        return subprocess.check_output(["git", "-C", REPO, "rev-parse", "--short", "HEAD"], stderr=subprocess.DEVNULL).decode().strip()
    except Exception:
        return "unknown"


# ----------------------------------------------------------------------------------------------
# TLC


class TLCResult(object):
    def __init__(self):
        self.out = ""
        self.rc = None
        self.states = 0
        self.distinct = 0
        self.depth = 0
        self.violated = None  # name of violated invariant / property, or None
        self.error = None
        self.coverage = {}
        self.wall = 0.0
        self.cmd = ""

    @property
    def ok(self):
        return self.rc == 0 and self.violated is None and self.error is None


_RE_STATES = re.compile(r"(\d+) states generated, (\d+) distinct states found")
_RE_DEPTH = re.compile(r"The depth of the complete state graph search is (\d+)")
_RE_INV = re.compile(r"Error: Invariant (\S+) is violated")
_RE_PROP = re.compile(r"Error: (?:Action property|Temporal properties were violated|Action property (\S+))")
_RE_COV = re.compile(r"^<(\w+) line (\d+), col \d+ to line \d+, col \d+ of module (\w+)>: (\d+):(\d+)", re.M)


def run_tlc(module, cfg, workers=None, env=None, timeout=600, extra=(), cwd=None, coverage=False,
            deadlock=False, simulate=None, dump=None, depth=None, seed=None, javaopts=()):
    """Run TLC on spec/<module>.tla with spec/<cfg> (absolute or relative to spec/)."""
    cwd = cwd or SPEC
    meta = scratch_dir("mpv-tlc-")
    cmd = ["java", "-XX:+UseParallelGC", "-Xmx8g"] + list(javaopts) + ["-cp", TLA_CP, "tlc2.TLC",
           "-metadir", meta, "-noGenerateSpecTE", "-workers", str(workers or NCPU), "-config", cfg]
    if not deadlock:
        cmd += ["-deadlock"]
    if coverage:
        cmd += ["-coverage", "1"]
    if simulate:
        cmd += ["-simulate", simulate]
    if depth:
        cmd += ["-depth", str(depth)]
    if seed is not None:
        cmd += ["-seed", str(seed)]
    if dump:
        cmd += ["-dump", dump]
    cmd += list(extra) + [module]
    e = dict(os.environ)
    e.update(env or {})
    r = TLCResult()
    r.cmd = " ".join(cmd)
    t0 = time.time()
    try:
        p = subprocess.run(cmd, cwd=cwd, env=e, stdout=subprocess.PIPE, stderr=subprocess.STDOUT, timeout=timeout)
        r.out = p.stdout.decode("utf-8", "replace")
        r.rc = p.returncode
    except subprocess.TimeoutExpired as ex:
        r.out = (ex.stdout or b"").decode("utf-8", "replace")
        r.rc = -9
        r.error = "timeout after %ss" % timeout
        subprocess.call(["pkill", "-f", meta])
    r.wall = time.time() - t0
    shutil.rmtree(meta, ignore_errors=True)
    m = None
    for m in _RE_STATES.finditer(r.out):
        pass
    if m:
        r.states, r.distinct = int(m.group(1)), int(m.group(2))
    m = _RE_DEPTH.search(r.out)
    if m:
        r.depth = int(m.group(1))
    m = _RE_INV.search(r.out)
    if m:
        r.violated = m.group(1)
    elif "Error: Action property" in r.out or "Temporal properties were violated" in r.out:
        m2 = re.search(r"Error: Action property (\S+)", r.out)
        r.violated = m2.group(1) if m2 else "temporal"
    elif "Error: Deadlock reached" in r.out:
        r.violated = "Deadlock"
    elif r.rc not in (0, None) and r.error is None:
        if "Error:" in r.out or "error" in r.out.lower():
            r.error = "tlc exit %s" % r.rc
    for m in _RE_COV.finditer(r.out):
        r.coverage[m.group(1)] = (int(m.group(4)), int(m.group(5)))
    return r


def tlc_fail(r, what):
    sys.stderr.write("MACHINERY FAILURE in %s: %s\n%s\n" % (what, r.error or r.rc, r.out[-3000:]))
    sys.exit(2)


# ----------------------------------------------------------------------------------------------
# TLA+ value parser (TLC's printed syntax)


class TLAParser(object):
    def __init__(self, s):
        self.s = s
        self.i = 0

    def ws(self):
        s, n = self.s, len(self.s)
        while self.i < n and s[self.i] in " \t\r\n":
            self.i += 1

    def peek(self, k=1):
        return self.s[self.i:self.i + k]

    def expect(self, t):
        self.ws()
        if not self.s.startswith(t, self.i):
            raise ValueError("expected %r at %d: %r" % (t, self.i, self.s[self.i:self.i + 40]))
        self.i += len(t)

    def value(self):
        v = self.atom()
        self.ws()
        # function composition  a :> b @@ c :> d
        if self.peek(2) == ":>":
            d = {}
            k = v
            while True:
                self.expect(":>")
                d[freeze(k)] = self.atom()
                self.ws()
                if self.peek(2) == "@@":
                    self.i += 2
                    k = self.atom()
                    self.ws()
                else:
                    break
            return d
        return v

    def atom(self):
        self.ws()
        s = self.s
        c = s[self.i]
        if c == '"':
            j = self.i + 1
            out = []
            while s[j] != '"':
                if s[j] == "\\":
                    j += 1
                    out.append({"n": "\n", "t": "\t"}.get(s[j], s[j]))
                else:
                    out.append(s[j])
                j += 1
            self.i = j + 1
            return "".join(out)
        if s.startswith("<<", self.i):
            self.i += 2
            items = self.items(">>")
            return items
        if c == "{":
            self.i += 1
            return TLASet(self.items("}"))
        if c == "(":
            self.i += 1
            v = self.value()
            self.expect(")")
            return v
        if c == "[":
            self.i += 1
            d = {}
            self.ws()
            if self.peek() == "]":
                self.i += 1
                return d
            while True:
                self.ws()
                m = re.compile(r"[A-Za-z_0-9]+").match(s, self.i)
                k = m.group(0)
                self.i = m.end()
                self.expect("|->")
                d[k] = self.value()
                self.ws()
                if self.peek() == ",":
                    self.i += 1
                    continue
                self.expect("]")
                return d
        m = re.compile(r"-?\d+").match(s, self.i)
        if m:
            self.i = m.end()
            v = int(m.group(0))
            self.ws()
            if self.peek(2) == "..":
                self.i += 2
                hi = self.atom()
                return TLASet(range(v, hi + 1))
            return v
        m = re.compile(r"[A-Za-z_][A-Za-z_0-9]*").match(s, self.i)
        if m:
            self.i = m.end()
            w = m.group(0)
            return {"TRUE": True, "FALSE": False}.get(w, w)
        raise ValueError("cannot parse at %d: %r" % (self.i, s[self.i:self.i + 40]))

    def items(self, close):
        out = []
        self.ws()
        if self.s.startswith(close, self.i):
            self.i += len(close)
            return out
        while True:
            out.append(self.value())
            self.ws()
            if self.peek() == ",":
                self.i += 1
                continue
            self.expect(close)
            return out


class TLASet(list):
    """A TLA+ set, kept as a list (elements may be unhashable)."""


def freeze(v):
    if isinstance(v, list):
        return tuple(freeze(x) for x in v)
    if isinstance(v, dict):
        return tuple(sorted((k, freeze(x)) for k, x in v.items()))
    return v


def parse_tla(s):
    p = TLAParser(s)
    v = p.value()
    return v


def parse_state(text):
    """'/\\ a = v\n/\\ b = w' -> dict"""
    out = {}
    parts = re.split(r"^/\\ ", text.strip(), flags=re.M)
    for part in parts:
        part = part.strip()
        if not part:
            continue
        name, _, val = part.partition(" = ")
        out[name.strip()] = parse_tla(val)
    return out


def parse_dump(path):
    """TLC -dump file: 'State n:' blocks -> list of dicts."""
    with open(path) as f:
        txt = f.read()
    blocks = re.split(r"^State \d+:\s*$", txt, flags=re.M)
    return [parse_state(b) for b in blocks if b.strip()]


def parse_printt(out, tag):
    """All PrintT'ed tuples whose first element is the string tag (single worker output)."""
    res = []
    rx = re.compile(r'<<\s*"%s"' % re.escape(tag))
    pos = 0
    while True:
        m = rx.search(out, pos)
        if not m:
            break
        p = TLAParser(out)
        p.i = m.start()
        try:
            res.append(p.value())
            pos = p.i
        except Exception:
            pos = m.end()
    return res


# ----------------------------------------------------------------------------------------------
# evidence + findings


def load_known():
    with open(os.path.join(VERIF, "known_findings.json")) as f:
        k = json.load(f)
    return {e["signature"]: e for e in k.get("open", [])}


class Check(object):
    """Collects what a check covered, its findings, and produces the exit code."""

    def __init__(self, prop, tier):
        self.prop = prop
        self.tier = tier
        self.t0 = time.time()
        self.cov = {"evaluations": 0, "distinct_nontrivial": 0, "rule": "", "samples": [], "states": 0,
                    "transitions": 0, "traces_validated_against_impl": 0, "tlc_runs": []}
        self.assumptions = []
        self.findings = {}  # signature -> (description, replay dict)
        import glob
        for old in glob.glob(os.path.join(OUT, "replays", "%s-*.json" % prop)):
            try:
                os.unlink(old)
            except OSError:
                pass
        self.notes = []

    def add_tlc(self, name, r, constants=""):
        self.cov["states"] += r.distinct
        self.cov["transitions"] += r.states
        self.cov["tlc_runs"].append({"run": name, "distinct_states": r.distinct, "states_generated": r.states,
                                     "depth": r.depth, "wall_s": round(r.wall, 1), "constants": constants,
                                     "coverage": {k: list(v) for k, v in sorted(r.coverage.items())} or None})

    def sample(self, s, cap=5):
        if len(self.cov["samples"]) < cap:
            self.cov["samples"].append(s)

    def finding(self, signature, description, replay):
        if signature not in self.findings:
            self.findings[signature] = [description, replay, 1]
        else:
            self.findings[signature][2] += 1

    def note(self, s):
        self.notes.append(s)
        print("NOTE: " + s)

    def finish(self):
        known = load_known()
        rc = 0
        nviol = 0
        os.makedirs(os.path.join(OUT, "replays"), exist_ok=True)
        for sig in sorted(self.findings):
            desc, replay, count = self.findings[sig]
            if sig in known and known[sig].get("property") == self.prop:
                print("KNOWN-FINDING: property=%s %s -- %s (%d cases)" % (self.prop, sig, known[sig].get("what", desc), count))
                continue
            nviol += 1
            rc = 1
            path = os.path.join(OUT, "replays", "%s-%s.json" % (self.prop, re.sub(r"[^A-Za-z0-9_.-]+", "_", sig)[:80]))
            with open(path, "w") as f:
                json.dump({"property": self.prop, "signature": sig, "description": desc, "cases": count,
                           "replay": replay}, f, indent=1, default=str)
            print("VIOLATION property=%s replay=%s" % (self.prop, path))
            print("  signature: %s\n  %s (%d cases)" % (sig, desc, count))
        ev = {"property_id": self.prop, "tier": self.tier, "seed": SEED, "level": "model_checking",
              "coverage": self.cov, "assumptions": self.assumptions, "wall_s": round(time.time() - self.t0, 2),
              "violations": nviol, "repo_rev": repo_rev(), "notes": self.notes[:50],
              "known_findings_reported": sorted(s for s in self.findings if s in known)}
        os.makedirs(os.path.join(OUT, "evidence"), exist_ok=True)
        with open(os.path.join(OUT, "evidence", self.prop + ".json"), "w") as f:
            json.dump(ev, f, indent=1, default=str)
        print("%s %s: %s  (evaluations=%d, nontrivial=%d, tlc states=%d, traces=%d, %.1fs)" % (
            self.prop, self.tier, "OK" if rc == 0 else "VIOLATED", self.cov["evaluations"],
            self.cov["distinct_nontrivial"], self.cov["states"], self.cov["traces_validated_against_impl"],
            time.time() - self.t0))
        return rc
