"""./check selftest — demonstrates that the specifications are not vacuous and that the binding bites:
 (i)  negative configurations (the pinned / broken design alternatives) must be REFUTED by TLC;
 (ii) recorded traces, corrupted in one field, must be REJECTED by the trace specifications with the matching clause;
 (iii) optional: VERIF_SELFTEST_PINNED=<tree of the pinned commit>: the checks must flag the defects announced for it.
Not a MANIFEST check; exits 0 iff everything behaved as expected."""
from __future__ import print_function

import json
import os
import sys
import threading

from . import core


def neg(name, module, consts, invariants=(), properties=(), expect=None, javaopts=(), spec=False, workers=4, timeout=600):
    d = core.scratch_dir("mpv-self-")
    cfg = os.path.join(d, "n.cfg")
    with open(cfg, "w") as f:
        f.write("CONSTANTS %s\n" % consts)
        f.write("SPECIFICATION Spec\n" if spec else "INIT Init\nNEXT Next\n")
        f.write("CHECK_DEADLOCK FALSE\n")
        for i in invariants:
            f.write("INVARIANT %s\n" % i)
        for p in properties:
            f.write("PROPERTY %s\n" % p)
    r = core.run_tlc(module, cfg, workers=workers, timeout=timeout, javaopts=list(javaopts), deadlock=spec)
    ok = r.violated is not None and (expect is None or r.violated in expect)
    print("%-58s %s (violated: %s, %d states, %.0fs)" % (name, "refuted as expected" if ok else "NOT REFUTED", r.violated, r.distinct, r.wall))
    return ok


def negative_configs():
    from . import validate as V
    from . import decl

    core.sut()
    decl_dir, _ = V.prepare_decl(decl.CSV_LIBS)
    jo = ["-DTLA-Library=" + decl_dir]
    run = "N = 3 Memo = %s CycleGuard = %s ResetOnUnwind = %s Sweep = %s LeafKey = \"mixed\" MaxStack = 5 MaxCalls = %d MaxFail = %d MaxSpecial = %d MemoKey = \"%s\" OnlyDags = %s OnlyCyclic = FALSE MaxEdges = 9"
    inv = ["ExactlyOnce", "RunCompletes", "TermCorrect", "CyclicRejected", "AcyclicAccepted", "NoSpuriousRecursive", "StackBounded", "FailureReported"]
    props = ["NoReexec", "Quiescent", "FinishedStays", "RefinesAbs"]
    jobs = [
        ("MPRun pinned design (no cycle guard, no sweep)", "MPRun", run % ("TRUE", "FALSE", "FALSE", "FALSE", 1, 0, 0, "flag", "FALSE"), inv, props, None, (), False),
        ("MPRun without memoisation", "MPRun", run % ("FALSE", "TRUE", "TRUE", "TRUE", 1, 0, 0, "flag", "TRUE"), inv, props, {"ExactlyOnce", "NoReexec", "Quiescent", "RefinesAbs"}, (), False),
        ("MPRun cycle guard never reset after an error", "MPRun", run % ("TRUE", "TRUE", "FALSE", "TRUE", 2, 1, 1, "flag", "TRUE"), inv, props, {"NoSpuriousRecursive"}, (), False),
        ("MPRun without the sweep (unread reference never runs)", "MPRun", run % ("TRUE", "TRUE", "TRUE", "FALSE", 1, 0, 1, "flag", "TRUE"), inv, props, {"RunCompletes"}, (), False),
        ("MPRun memo keyed on a non-None result", "MPRun", run % ("TRUE", "TRUE", "TRUE", "TRUE", 2, 0, 1, "result", "TRUE"), inv, props, {"ExactlyOnce", "NoReexec", "Quiescent", "RefinesAbs"}, (), False),
        ("MPHeap accumulate without copy", "MPHeap", "MaxObj = 3 MaxHist = 4 CopyBeforeAccumulate = FALSE FuzzyProducersClamp = TRUE", ["FuzzyInRange"], ["Immutable"], {"Immutable"}, (), True),
        ("MPHeap fuzzy producers do not clamp", "MPHeap", "MaxObj = 3 MaxHist = 4 CopyBeforeAccumulate = TRUE FuzzyProducersClamp = FALSE", ["FuzzyInRange"], ["Immutable"], {"FuzzyInRange", "Immutable"}, (), True),
        ("MPValidate without the pre-pass", "MPValidate", "PrepassAll = FALSE CleanersTotal = TRUE AllKinds = FALSE Pairs = FALSE",
         ["AcceptIffWellFormed", "ErrorIsAFault", "RejectBeforeEffects", "EscapeTyped"], [], {"RejectBeforeEffects"}, jo, False),
        ("MPValidate cleaners leak TypeError (pinned)", "MPValidate", "PrepassAll = TRUE CleanersTotal = FALSE AllKinds = FALSE Pairs = FALSE",
         ["AcceptIffWellFormed", "ErrorIsAFault", "RejectBeforeEffects", "EscapeTyped"], [], {"EscapeTyped", "ErrorIsAFault"}, jo, False),
        ("MPRegistry string-prefix library filter (pinned)", "MPRegistry", 'PrefixRule = "string" MaxHist = 2 PairsAllowed = TRUE', ["HistoryIndependent"], [], {"HistoryIndependent"}, (), False),
        ("MPParserObj counter never reset (pinned)", "MPParserObj", 'ResetWhen = "never" CrLfIsOne = TRUE CmdLineFrom = "result" NParsers = 2 MaxHist = 2', ["LinesTrue", "VersionByText"], [], None, (), False),
        ("MPParserObj reset only after a successful parse", "MPParserObj", 'ResetWhen = "end" CrLfIsOne = TRUE CmdLineFrom = "result" NParsers = 1 MaxHist = 2', ["LinesTrue", "VersionByText"], [], None, (), False),
        ("MPParserObj CRLF counted twice (pinned)", "MPParserObj", 'ResetWhen = "start" CrLfIsOne = FALSE CmdLineFrom = "result" NParsers = 1 MaxHist = 1', ["LinesTrue"], [], {"LinesTrue"}, (), False),
        ("MPParserObj command line from the name token (pinned)", "MPParserObj", 'ResetWhen = "start" CrLfIsOne = TRUE CmdLineFrom = "name" NParsers = 1 MaxHist = 1', ["LinesTrue"], [], {"LinesTrue"}, (), False),
        ("MPCli error text that cannot be rendered (pinned)", "MPCli", "StrTotal = FALSE NLines = 3", ["ReportsMPilotErrors", "NeverSilent"], [], {"ReportsMPilotErrors"}, (), True),
    ]
    results = [None] * len(jobs)

    def work(i):
        j = jobs[i]
        results[i] = neg(j[0], j[1], j[2], j[3], j[4], j[5], j[6], j[7])

    ths = [threading.Thread(target=work, args=(i,)) for i in range(len(jobs))]
    for k in range(0, len(ths), 5):
        for t in ths[k:k + 5]:
            t.start()
        for t in ths[k:k + 5]:
            t.join()
    return all(results)


def corrupted_traces():
    """record real engine traces, corrupt one field each, and demand the matching clause"""
    from . import engine

    core.sut()
    job = (0, 3, {1: [], 2: [1], 3: [1]}, {1: [], 2: [], 3: [2]}, set(), [("run", 0), ("run", 0)], 0, {1: [], 2: [], 3: []}, set(), set())
    engine._worker_init()
    base = engine.replay_one(job)["trace"]
    variants = []

    def mk(name, fn, expect):
        t = json.loads(json.dumps(base))
        fn(t)
        t["id"] = len(variants)
        variants.append((name, t, expect))

    mk("unchanged", lambda t: None, {"ok"})

    def dup_begin(t):
        i = [k for k, e in enumerate(t["ev"]) if e["ev"] == "exec_end"][0]
        t["ev"].insert(i + 1, {"ev": "exec_begin", "c": t["ev"][i]["c"]})
    mk("a finished command begins again", dup_begin, {"C01.ExactlyOnce"})

    def stale(t):
        e = [e for e in t["ev"] if e["ev"] == "read"][0]
        e["tok"] = "t999"
    mk("a read returns another object", stale, {"C01.ReadUnfinishedOrStale"})

    def drop_exec(t):
        name = sorted(t["deps"])[0]
        last = [c for c in t["deps"] if all(c not in d for d in t["deps"].values())]
        victim = last[0]
        t["ev"] = [e for e in t["ev"] if e.get("c") != victim or e["ev"] in ("read",) and e.get("c") != victim]
    mk("a leaf command is never executed", drop_exec, {"C01.RunIncomplete"})

    def drop_read(t):
        i = [k for k, e in enumerate(t["ev"]) if e["ev"] == "read"][0]
        del t["ev"][i]
    mk("a referenced result is not read", drop_read, {"C01.DependencyNotRead"})

    def cyc(t):
        a, b = sorted(t["deps"])[:2]
        t["deps"][a] = [b]
        t["deps"][b] = [a]
        t["strict"] = False
    mk("the graph is declared cyclic but run() returned", cyc, {"C14.ReturnedOk"})

    def wrongerr(t):
        for e in t["ev"]:
            if e["ev"] == "ret_run":
                e.update({"ok": False, "cls": "RecursiveModelStructure", "cause": ""})
                break
        t["ev"] = t["ev"][:t["ev"].index(e) + 1]
    mk("an acyclic program rejected as recursive", wrongerr, {"C01.SpuriousRecursive"})
    chk = core.Check("selftest", "quick")
    verdicts = engine.validate_traces(chk, "selftest", [v[1] for v in variants])
    ok = True
    for name, t, expect in variants:
        v = verdicts[t["id"]][0]
        good = v in expect
        ok &= good
        print("%-58s %s (verdict %s)" % ("trace: " + name, "as expected" if good else "UNEXPECTED", v))
    return ok


def main():
    ok = negative_configs()
    ok = corrupted_traces() and ok
    pinned = os.environ.get("VERIF_SELFTEST_PINNED")
    if pinned:
        import subprocess

        for prop in ("C14", "C03", "C05", "C07", "C10", "C11", "C13", "C15", "C19", "C20"):
            e = dict(os.environ)
            e["VERIF_SUT"] = pinned
            rc = subprocess.call([os.path.join(core.VERIF, "check"), prop], env=e, stdout=subprocess.DEVNULL)
            good = rc == 1
            ok &= good
            print("%-58s %s (exit %d)" % ("pinned tree, check " + prop, "flags it" if good else "DOES NOT FLAG IT", rc))
    print("selftest: %s" % ("OK" if ok else "FAILED"))
    return 0 if ok else 1
