"""C03-C08: library semantics.  EEMSCases.tla (TLC: laws + replay plan) -> execute on the SUT ->
EEMSOpsTrace.tla (TLC validates the observations against EEMSOps.Sem)."""
from __future__ import print_function

import json
import math
import os
import random
import re
import sys
import threading
import warnings
from fractions import Fraction

from . import core

LAWS = ["MaskRule", "FuzzyInRange", "OrderInvariant", "Equivariant", "FuzzyAlgebra", "ArithAlgebra", "ConvAlgebra",
        "ConvArrayAlgebra"]


class Family(object):
    def __init__(self, fam, n, L=1, wide=False, mv=True, laws=None, sample=1):
        self.fam, self.n, self.L, self.wide, self.mv = fam, n, L, wide, mv
        self.sample = sample  # replay every sample-th state only (TLC still explores and checks all of them)
        self.laws = laws or LAWS
        self.tag = "%s_n%d_L%d%s%s" % (fam, n, L, "_wide" if wide else "", "" if mv else "_nomv")
        self.cases = []
        self.tlc = None

    def consts(self):
        return 'Family = "%s" NIn = %d LenA = %d Wide = %s WithMV = %s' % (
            self.fam, self.n, self.L, "TRUE" if self.wide else "FALSE", "TRUE" if self.mv else "FALSE")


_STATE_RE = re.compile(r"^State \d+:\s*$", re.M)


def _tla_to_json(s):
    s = s.replace("<<", "[").replace(">>", "]")
    if "TRUE" in s or "FALSE" in s:
        s = re.sub(r"\bTRUE\b", "true", re.sub(r"\bFALSE\b", "false", s))
    return json.loads(s)


def gen_family(f, workers=4, timeout=1500):
    d = core.scratch_dir("mpv-eems-")
    cfg = os.path.join(d, f.tag + ".cfg")
    with open(cfg, "w") as fh:
        fh.write("CONSTANTS %s\nINIT Init\nNEXT Next\nCHECK_DEADLOCK FALSE\n" % f.consts())
        for law in f.laws:
            fh.write("INVARIANT %s\n" % law)
    dump = os.path.join(d, f.tag)
    r = core.run_tlc("EEMSCases", cfg, workers=workers, timeout=timeout, dump=dump)
    f.tlc = r
    if r.error or r.rc != 0:
        # (this runs in a thread: the failure is raised by gen_families after the join)
        f.failed = ("law %s does not hold on the specification (%s)" % (r.violated, f.tag) if r.violated else
                    "EEMSCases %s: %s" % (f.tag, r.error or r.rc)) + "\n" + "\n".join(l for l in r.out.split("\n") if "rror" in l or "xception" in l)[:2000] + "\n" + r.out[-1500:]
        return f
    with open(dump + ".dump") as fh:
        txt = fh.read()
    cases = []
    for blk in _STATE_RE.split(txt):
        if "done = TRUE" not in blk:
            continue
        parts = {}
        for part in re.split(r"^/\\ ", blk.strip(), flags=re.M):
            if part.strip():
                k, _, v = part.partition(" = ")
                parts[k.strip()] = v
        cases.append((_tla_to_json(parts["ins"]), _tla_to_json(parts["out"])))
    os.unlink(dump + ".dump")
    f.total_cases = len(cases)
    if f.sample > 1:
        cases = [c for i, c in enumerate(cases) if i % f.sample == core.SEED % f.sample]
    f.cases = cases
    return f


def gen_families(fams):
    def weight(f):
        return (8 if f.fam == "cva" and f.L >= 3 else 4 if f.L >= 2 or f.n >= 4 or (f.n >= 3 and (f.wide or f.fam == "ar")) else 1)

    tot = float(sum(weight(f) for f in fams))
    ths = [threading.Thread(target=gen_family, args=(f, max(1, min(core.NCPU, int(round(core.NCPU * 1.5 * weight(f) / tot)))))) for f in fams]
    for t in ths:
        t.start()
    for t in ths:
        t.join()
    for f in fams:
        if getattr(f, "failed", None):
            sys.stderr.write("MACHINERY FAILURE: %s\n" % f.failed)
            sys.exit(2)
        if f.tlc is None or getattr(f, "cases", None) is None:
            sys.stderr.write("MACHINERY FAILURE: no TLC result for %s\n" % f.tag)
            sys.exit(2)
    return fams


# ----------------------------------------------------------------------------------------------
# concretisation and execution

_LIB = {}


def lib():
    if not _LIB:
        core.sut()
        warnings.simplefilter("ignore")
        import numpy

        numpy.seterr(all="ignore")
        from mpilot.libraries.eems import basic, fuzzy  # noqa
        from mpilot.commands import Command

        for info in Command.get_commands():
            if info.module.startswith("mpilot.libraries.eems.basic") or info.module.startswith("mpilot.libraries.eems.fuzzy"):
                _LIB[info.command.name] = info.command
        _LIB["__numpy__"] = numpy
        _LIB["__Command__"] = Command
    return _LIB


PAYLOADS = {"f": [0.0, -9999.0, 1e30, 0.37], "i": [0, -9999, 123456789, 7]}


def to_float(c):
    return c[0] / c[1]


def build_array(kind, cells, variant=0, shape=None, perm=None):
    """abstract array -> numpy masked array; masked cells carry a payload chosen by `variant`"""
    np = lib()["__numpy__"]
    pay = PAYLOADS[kind][variant % len(PAYLOADS[kind])]
    vals = [(pay if c[1] == 0 else (c[0] // c[1] if kind == "i" else c[0] / c[1])) for c in cells]
    mask = [c[1] == 0 for c in cells]
    if perm is not None:
        vals = [vals[i] for i in perm]
        mask = [mask[i] for i in perm]
    a = np.ma.array(vals, mask=mask, dtype=("int64" if kind == "i" else "float64"))
    if variant % 2 == 1 and not any(mask):
        a = np.ma.array(vals, dtype=("int64" if kind == "i" else "float64"))  # nomask form
    if shape is not None:
        a = a.reshape(shape)
    if 50 <= variant < 90 and a.ndim >= 2:
        # the same grid laid out column by column in memory (what a transposed view or a Fortran-ordered raster looks like)
        a = np.ma.array(np.asfortranarray(np.ma.getdata(a)), mask=np.asfortranarray(np.ma.getmaskarray(a)))
    if variant == 96 and kind != "i":
        a = a.astype("float32")            # single-precision data (NetCDF rasters often are); lattice values are exact in float32
    if variant == 97 and not any(mask):
        a = np.asarray(np.ma.getdata(a))   # a complete array as a plain ndarray, not a masked array
    return a


def producer(name, arr, fuzzy):
    Command = lib()["__Command__"]
    c = Command(name)
    c.is_finished = True
    c._result = arr
    if fuzzy:
        c.is_fuzzy = True
    return c


def conv_param(cls, name, v):
    from mpilot import params as P

    decl = cls.inputs.get(name)
    if isinstance(v, str):
        if isinstance(decl, P.BooleanParameter):
            return v == "True"
        return v
    if v and isinstance(v[0], list) or v == []:
        return [num(x) for x in v]
    return num(v)


def num(r):
    return r[0] // r[1] if r[1] == 1 else r[0] / r[1]


REPEAT = True


def execute(cmd, params, arrays):
    """run one command's execute() on concrete arrays -> ('ok', result) | (ErrorClassName, message)"""
    L = lib()
    cls = L[cmd]
    inst = cls("R", [], None, 1)
    fuzzy_in = cmd.startswith("Fuzzy") or cmd == "CvtFromFuzzy"
    prods = [producer("I%d" % i, a, fuzzy_in) for i, a in enumerate(arrays)]
    kw = {}
    if "InFieldNames" in cls.inputs:
        kw["InFieldNames"] = prods
    elif not prods:
        return "Harness.NoInput", ""
    elif "InFieldName" in cls.inputs:
        kw["InFieldName"] = prods[0]
    else:
        kw["A"], kw["B"] = prods[0], prods[1]
    for name, v in params:
        kw[name] = conv_param(cls, name, v)
    np = L["__numpy__"]

    def in_range(a):
        d = np.ma.getdata(a)[~np.ma.getmaskarray(a)]
        return bool(d.size == 0 or (d.min() >= -1 and d.max() <= 1))

    before = [fuzzy_in and in_range(a) for a in arrays]
    try:
        r = inst.execute(**kw)
        # a finished fuzzy result that lay in [-1, +1] still does after having been consumed (C04 is about every result, whenever it is looked at)
        if any(b and not in_range(a) for b, a in zip(before, arrays)):
            return "Harness.FuzzyInputLeftRange", ""
        if REPEAT:
            # evaluating the same operator again on the same (finished) inputs gives the same result: an operator that
            # works in place on an input's stored result answers differently the second time
            np = L["__numpy__"]
            r2 = cls("R2", [], None, 1).execute(**kw)
            if isinstance(r, np.ndarray) and isinstance(r2, np.ndarray):
                m1, m2 = np.ma.getmaskarray(r), np.ma.getmaskarray(r2)
                if r.shape != r2.shape or not np.array_equal(m1, m2) or \
                        not np.array_equal(np.ma.getdata(r)[~m1], np.ma.getdata(r2)[~m2], equal_nan=True):
                    return "Harness.SecondEvaluationDiffers", ""
        return "ok", r
    except BaseException as e:
        try:
            msg = str(e)[:200]
        except BaseException as e2:  # an error class whose __str__ itself fails
            msg = "<unprintable: %s>" % type(e2).__name__
        return type(e).__name__, msg


def snap(x):
    if x != x or x in (float("inf"), float("-inf")):
        return [0, -2]
    fr = Fraction(float(x)).limit_denominator(1000000)
    if abs(float(fr) - float(x)) <= 1e-9 * max(1.0, abs(float(x))) and abs(fr.numerator) < 2 ** 30:
        return [fr.numerator, fr.denominator]
    return [int(max(-2e9, min(2e9, float(x) * 1000))), -1]


def observe(res, n_expected, shape):
    """result of execute -> ['ok', cells] | [ErrorClass, []]   (cells in C order)"""
    np = lib()["__numpy__"]
    st, r = res
    if st != "ok":
        return [st, []]
    if not isinstance(r, np.ndarray):
        return ["NotAnArray:" + type(r).__name__, []]
    if tuple(r.shape) != tuple(shape):
        return ["ShapeMismatch", []]
    mask = np.ma.getmaskarray(r).ravel()
    data = np.ma.getdata(r).ravel()
    return ["ok", [[0, 0] if mask[i] else snap(data[i]) for i in range(len(data))]]


class Pack(object):
    """cases of one family with the same input kinds, executed together (cell-wise) or one by one (array level)"""

    def __init__(self, fam, kinds):
        self.fam, self.kinds, self.idx = fam, kinds, []


def run_family(f, variant=0, shape_fn=None, perm_seed=None, raw_hook=None, unpacked=False):
    """Execute every entry of every case. Returns obs[i] = list of [cmd, params, observation] per case.

    Cell-wise families (L == 1) are packed: one execute per (kinds, entry) over all lattice points.
    shape_fn(npts) -> shape to reshape packed arrays into; perm_seed -> common permutation of the cells.
    raw_hook(cmd, params, arrays, result) is called with the concrete arrays and raw result of every execution."""
    np = lib()["__numpy__"]
    obs = [None] * len(f.cases)
    nexec = 0
    if f.L == 1 and not unpacked:
        groups = {}
        for i, (ins, out) in enumerate(f.cases):
            # (variant 97 - complete arrays as plain ndarrays - packs the lattice points input by input into complete and missing ones, so that complete arrays exist)
            groups.setdefault(tuple(a[0] for a in ins) + (tuple(a[1][0][1] == 0 for a in ins) if variant == 97 else ()), []).append(i)
        for gkey, idx in sorted(groups.items()):
            kinds = gkey[:len(f.cases[idx[0]][0])]
            npts = len(idx)
            perm = None
            if perm_seed is not None:
                perm = list(range(npts))
                random.Random(perm_seed).shuffle(perm)
            shape = shape_fn(npts) if shape_fn else (npts,)
            tot = 1
            for s in shape:
                tot *= s
            pad = tot - npts  # reshape may need padding: repeat the first points
            order = list(range(npts))
            if perm is not None:
                order = [order[p] for p in perm]
            order += [order[j % npts] for j in range(pad)]
            entries = f.cases[idx[0]][1]
            for i in idx:
                obs[i] = []
            for e, (cmd, params, _) in enumerate(entries):
                arrays = []
                for k in range(len(kinds)):
                    cells = [f.cases[idx[o]][0][k][1][0] for o in order]
                    arrays.append(build_array(kinds[k], cells, variant, shape))
                res = execute(cmd, params, arrays)
                nexec += 1
                if raw_hook:
                    raw_hook(f, cmd, params, arrays, res, [idx[o] for o in order])
                o = observe(res, tot, shape)
                seen = set()
                for pos, oi in enumerate(order):
                    ci = idx[oi]
                    if ci in seen:
                        continue  # padded duplicate
                    seen.add(ci)
                    obs[ci].append([cmd, params, ["ok", [o[1][pos]]] if o[0] == "ok" else o])
    else:
        for i, (ins, out) in enumerate(f.cases):
            L = len(ins[0][1]) if ins else 0
            shape = shape_fn(L) if shape_fn else (L,)
            perm = None
            if perm_seed is not None:
                perm = list(range(L))
                random.Random(perm_seed + i).shuffle(perm)
            obs[i] = []
            for e, (cmd, params, _) in enumerate(out):
                arrays = [build_array(a[0], a[1], variant, tuple(a[2]), None) if len(a) >= 3 else
                          build_array(a[0], a[1], variant, shape if len(a[1]) == L else None, perm if len(a[1]) == L else None)
                          for a in ins]
                res = execute(cmd, params, arrays)
                nexec += 1
                if raw_hook:
                    raw_hook(f, cmd, params, arrays, res, [i])
                o = observe(res, L, shape)
                if o[0] == "ok" and perm is not None:
                    inv = [0] * L
                    for pos, src in enumerate(perm):
                        inv[src] = pos
                    o = ["ok", [o[1][inv[j]] for j in range(L)]]
                obs[i].append([cmd, params, o])
    return obs, nexec


# ----------------------------------------------------------------------------------------------
# validation by TLC


def validate(chk, records, shards=None):
    """records: list of {"id", "ins", "obs"} -> {id: [[clause, cmd, entry], ...]}"""
    if not records:
        return {}
    shards = shards or min(core.NCPU, max(1, len(records) // 400))
    d = core.scratch_dir("mpv-etr-")
    cfg = os.path.join(d, "t.cfg")
    with open(cfg, "w") as f:
        f.write("INIT Init\nNEXT Next\nCHECK_DEADLOCK FALSE\nINVARIANT Report\n")
    files = []
    for s in range(shards):
        part = records[s::shards]
        if part:
            path = os.path.join(d, "o%d.ndjson" % s)
            with open(path, "w") as f:
                for r in part:
                    f.write(json.dumps(r) + "\n")
            files.append(path)
    results = [None] * len(files)

    def work(i):
        results[i] = core.run_tlc("EEMSOpsTrace", cfg, workers=1, env={"TRACE_FILE": files[i]}, timeout=1800)

    ths = [threading.Thread(target=work, args=(i,)) for i in range(len(files))]
    for t in ths:
        t.start()
    for t in ths:
        t.join()
    verdicts = {}
    tot = core.TLCResult()
    for r in results:
        if r.rc != 0 or r.error:
            core.tlc_fail(r, "EEMSOpsTrace")
        for v in core.parse_printt(r.out, "VERDICT"):
            verdicts[v[1]] = v[2]
        tot.states += r.states
        tot.distinct += r.distinct
        tot.depth = max(tot.depth, r.depth)
        tot.wall = max(tot.wall, r.wall)
    chk.add_tlc("EEMSOpsTrace validation (%d shards)" % len(files), tot, "TRACE_FILE=<observations ndjson>")
    if len(verdicts) != len(records):
        sys.stderr.write("MACHINERY FAILURE: %d verdicts for %d observation records\n" % (len(verdicts), len(records)))
        sys.exit(2)
    chk.cov["traces_validated_against_impl"] += len(records)
    return verdicts


def describe_case(ins, entry):
    def cell(c):
        return "--" if c[1] == 0 else (str(c[0]) if c[1] == 1 else "%d/%d" % (c[0], c[1]))

    return {"inputs": [[a[0], [cell(c) for c in a[1]]] + ([a[2]] if len(a) >= 3 else []) for a in ins], "command": entry[0],
            "params": [[k, (v if isinstance(v, str) else ([cell(x) for x in v] if (v == [] or isinstance(v[0], list)) else cell(v)))] for k, v in entry[1]]}


class Session(object):
    """One property check over several families."""

    def __init__(self, chk, prop, only_cmds=None, clauses=None):
        self.chk, self.prop, self.only, self.clauses = chk, prop, only_cmds, clauses
        self.records = []
        self.meta = {}
        self.nontrivial = set()

    def wanted(self, cmd):
        return self.only is None or cmd in self.only

    def add_family(self, f, variant=0, shape_fn=None, perm_seed=None, label="", raw_hook=None, unpacked=False):
        obs, nexec = run_family(f, variant, shape_fn, perm_seed, raw_hook, unpacked)
        self.chk.cov["evaluations"] += nexec
        for i, (ins, out) in enumerate(f.cases):
            o = [x for x in obs[i] if self.wanted(x[0])]
            if not o:
                continue
            rid = len(self.records)
            self.records.append({"id": rid, "ins": ins, "obs": o})
            self.meta[rid] = (f, i, label, [e for e in out if self.wanted(e[0])])
            vals = set()
            for a in ins:
                for c in a[1]:
                    vals.add(tuple(c))
            if len(vals) >= 2:
                self.nontrivial.add((f.tag, json.dumps(ins)))
        return obs

    def finish(self):
        chk, prop = self.chk, self.prop
        verdicts = validate(chk, self.records)
        chk.cov["distinct_nontrivial"] += len(self.nontrivial)
        nsamp = 0
        for rid in sorted(verdicts):
            f, i, label, exp = self.meta[rid]
            rec = self.records[rid]
            if not verdicts[rid] and nsamp < 3 and rid % 211 == 7:
                nsamp += 1
                chk.sample({"family": f.tag, "case": describe_case(rec["ins"], rec["obs"][0]), "spec_result": exp[0][2],
                            "observed": rec["obs"][0][2], "variant": label})
            for clause, cmd, e in verdicts[rid]:
                entry = rec["obs"][e - 1]
                if isinstance(entry[2][0], str) and entry[2][0].startswith("Harness.") and entry[2][0] != "Harness.NoInput":
                    clause = entry[2][0].split(".", 1)[1]      # what the execution wrapper saw is reported under every property that runs it
                elif self.clauses is not None and clause not in self.clauses:
                    continue
                chk.finding("%s:%s:%s" % (prop, cmd, clause),
                            "%s: observation differs from EEMSOps.Sem (%s)" % (cmd, clause),
                            {"family": f.tag, "variant": label, "case": describe_case(rec["ins"], entry),
                             "spec_result": exp[e - 1][2], "observed": entry[2]})


def shapes_for(npts, which):
    """a rank-2 or rank-3 shape with at least npts cells (packed arrays are padded)"""
    if which == 0:
        return (npts,)
    if which == 1:
        r = int(math.ceil(npts / 5.0))
        return (r, 5)
    if which == 2:
        r = int(math.ceil(npts / 6.0))
        return (2, r, 3)
    if which == 3:
        return (1, npts)
    if which == 4:
        return (npts, 1)
    r = int(math.ceil(npts / 4.0))
    return (r, 1, 4)


def add_tlc_runs(chk, fams):
    for f in fams:
        chk.add_tlc("EEMSCases " + f.tag, f.tlc, f.consts() + " invariants=" + ",".join(f.laws))


# ----------------------------------------------------------------------------------------------
# the checks

FUZZY_OPS = {"FuzzyOr", "FuzzyAnd", "FuzzyNot", "FuzzyUnion", "FuzzyWeightedUnion", "FuzzySelectedUnion", "FuzzyXOr"}
ARITH = {"Sum", "WeightedSum", "Multiply", "AMinusB", "ADividedByB", "Minimum", "Maximum", "Mean", "WeightedMean", "Copy"}
CONV = {"CvtToFuzzy", "CvtFromFuzzy", "CvtToBinary", "CvtToFuzzyCat", "CvtToFuzzyCurve", "CvtToFuzzyZScore", "CvtToFuzzyCurveZScore",
        "CvtToFuzzyMeanToMid", "Normalize", "NormalizeZScore", "NormalizeCat", "NormalizeCurve", "NormalizeCurveZScore", "NormalizeMeanToMid"}
FUZZY_PRODUCERS = {"FuzzyOr", "FuzzyAnd", "FuzzyUnion", "FuzzyXOr", "FuzzySelectedUnion", "FuzzyWeightedUnion", "FuzzyNot",
                   "CvtToFuzzy", "CvtToFuzzyZScore", "CvtToFuzzyCat", "CvtToFuzzyCurve", "CvtToFuzzyMeanToMid",
                   "CvtToFuzzyCurveZScore", "CvtToBinary"}


def check_C06(tier):
    chk = core.Check("C06", tier)
    lib()
    ns = [1, 2, 3] if tier == "quick" else [1, 2, 3, 4]
    fams = [Family("fz", n, laws=["MaskRule", "FuzzyInRange", "OrderInvariant", "FuzzyAlgebra"]) for n in ns]
    if tier == "thorough":
        fams.append(Family("fz", 5, mv=False, laws=["FuzzyInRange", "FuzzyAlgebra"]))
        fams.append(Family("fz", 3, wide=True, laws=["MaskRule", "FuzzyInRange", "OrderInvariant"]))
    gen_families(fams)
    add_tlc_runs(chk, fams)
    s = Session(chk, "C06", only_cmds=FUZZY_OPS)
    for f in fams:
        s.add_family(f, variant=core.SEED % 4, label="1-D packed")
    for f in fams:
        if f.n <= 2:        # the definitions are cell by cell: the same cells as a grid (column-major memory layout)
            s.add_family(f, variant=50, shape_fn=shape_fn_for(f, 2), label="rank-2 grid")
        if f.n == 2 and f.L == 1:
            # every lattice point on its own (one-cell arrays: an input may then be "true everywhere"), and complete arrays as plain ndarrays
            s.add_family(f, variant=core.SEED % 4, label="one cell per array", unpacked=True)
            s.add_family(f, variant=97, label="complete arrays as plain ndarrays")
    s.finish()
    metamorphic_fuzzy(chk, 200 if tier == "quick" else 3000)
    chk.cov["rule"] = ("TLC enumerates every lattice point (fuzzy values k/4, k=-4..4, and the missing cell) for n inputs and evaluates every operator entry "
                       "(Or, And, Union, XOr, Not, SelectedUnion for every k and direction, WeightedUnion for a weight lattice, error entries) with EEMSOps.Sem, "
                       "checking the algebra (order invariance, involution, De Morgan, And<=Union<=Or, Sel(1)/Sel(n), equal weights) in every state; "
                       "all points are executed on the real commands (packed into arrays) and every observation is validated by TLC against Sem. "
                       "non-trivial = lattice point with at least two distinct cell values")
    chk.cov["exhaustive"] = True
    chk.assumptions += ["float results within 1e-9 relative of a rational with denominator <= 1 000 000 are identified with it",
                        "cell-wise commands may be evaluated on packed arrays (cell independence is C05's subject)"]
    return chk.finish()


def metamorphic_fuzzy(chk, rounds):
    """off-lattice: order invariance and the Sel/Or/And/Union identities on random float data (exact or 1e-12)"""
    np = lib()["__numpy__"]
    rng = random.Random(core.SEED + 17)
    for it in range(rounds):
        n = rng.randint(1, 5)
        size = rng.randint(1, 7)
        arrs = []
        for k in range(n):
            a = np.ma.array([rng.uniform(-1, 1) for _ in range(size)], mask=[rng.random() < 0.15 for _ in range(size)])
            arrs.append(a)
        perm = list(range(n))
        rng.shuffle(perm)
        chk.cov["evaluations"] += 1

        def same(x, y, tol=1e-12):
            if x[0] != "ok" or y[0] != "ok":
                return x[0] == y[0]
            mx, my = np.ma.getmaskarray(x[1]), np.ma.getmaskarray(y[1])
            if (mx != my).any():
                return False
            dx, dy = np.ma.getdata(x[1])[~mx], np.ma.getdata(y[1])[~my]
            return bool(np.all(np.abs(dx - dy) <= tol))

        def fail(what, cmd):
            chk.finding("C06:%s:Metamorphic.%s" % (cmd, what), "%s violates %s on random float data" % (cmd, what),
                        {"arrays": [[None if m else float(v) for v, m in zip(np.ma.getdata(a), np.ma.getmaskarray(a))] for a in arrs], "perm": perm})

        for cmd in ("FuzzyOr", "FuzzyAnd", "FuzzyUnion") + (("FuzzyXOr",) if n >= 2 else ()):
            if not same(execute(cmd, [], [a.copy() for a in arrs]), execute(cmd, [], [arrs[p].copy() for p in perm]), 1e-12 if cmd in ("FuzzyUnion", "FuzzyXOr") else 0.0):
                fail("OrderInvariance", cmd)
        k = rng.randint(1, n)
        for word in ("Truest", "Falsest"):
            p = [["TruestOrFalsest", word], ["NumberToConsider", [k, 1]]]
            if not same(execute("FuzzySelectedUnion", p, [a.copy() for a in arrs]), execute("FuzzySelectedUnion", p, [arrs[q].copy() for q in perm])):
                fail("OrderInvariance", "FuzzySelectedUnion")
        if not same(execute("FuzzySelectedUnion", [["TruestOrFalsest", "Truest"], ["NumberToConsider", [1, 1]]], [a.copy() for a in arrs]),
                    execute("FuzzyOr", [], [a.copy() for a in arrs]), 0.0):
            fail("Sel1=Or", "FuzzySelectedUnion")
        if not same(execute("FuzzySelectedUnion", [["TruestOrFalsest", "Falsest"], ["NumberToConsider", [1, 1]]], [a.copy() for a in arrs]),
                    execute("FuzzyAnd", [], [a.copy() for a in arrs]), 0.0):
            fail("Sel1=And", "FuzzySelectedUnion")
        if not same(execute("FuzzySelectedUnion", [["TruestOrFalsest", "Truest"], ["NumberToConsider", [n, 1]]], [a.copy() for a in arrs]),
                    execute("FuzzyUnion", [], [a.copy() for a in arrs])):
            fail("SelN=Union", "FuzzySelectedUnion")
        nots = [execute("FuzzyNot", [], [a.copy()])[1] for a in arrs]
        if not same(execute("FuzzyNot", [], [execute("FuzzyOr", [], [a.copy() for a in arrs])[1]]), execute("FuzzyAnd", [], nots), 0.0):
            fail("DeMorgan", "FuzzyOr")


def check_C07(tier):
    chk = core.Check("C07", tier)
    lib()
    laws = ["MaskRule", "OrderInvariant", "ArithAlgebra"]
    fams = [Family("ar", n, laws=laws) for n in ([1, 2, 3] if tier == "quick" else [1, 2, 3, 4])]
    fams.append(Family("arerr", 0, L=0, laws=["OrderInvariant"]))
    if tier == "thorough":
        fams.append(Family("ar", 2, wide=True, laws=laws))
        fams.append(Family("ar", 3, wide=True, mv=False, laws=laws))
    gen_families(fams)
    add_tlc_runs(chk, fams)
    s = Session(chk, "C07", only_cmds=ARITH)
    for f in fams:
        s.add_family(f, variant=core.SEED % 4, label="1-D packed")
    for f in fams:
        if f.fam == "ar" and f.n <= 2 and f.L == 1:        # the same cells as a grid (column-major memory layout)
            s.add_family(f, variant=50, shape_fn=shape_fn_for(f, 2), label="rank-2 grid")
            s.add_family(f, variant=97, label="complete arrays as plain ndarrays")
    s.finish()
    metamorphic_arith(chk, 150 if tier == "quick" else 3000)
    chk.cov["rule"] = ("TLC enumerates every lattice point (floats k/2, k=-4..4; integers -2..2; the missing cell) for n inputs and every assignment of "
                       "element kinds (int/float) to the inputs, and evaluates Sum, Multiply, Minimum, Maximum, Mean, WeightedSum/WeightedMean over a weight lattice, "
                       "AMinusB, ADividedByB, Copy and the error entries (weight count, empty inputs, mixed shapes) with EEMSOps.Sem, checking order invariance and the "
                       "arithmetic identities; all points are executed on the real commands per kind combination and validated by TLC. "
                       "non-trivial = point with at least two distinct cell values")
    chk.cov["exhaustive"] = True
    chk.assumptions += ["float results within 1e-9 relative of a rational with denominator <= 1 000 000 are identified with it",
                        "only mathematical values are compared (result dtype is unspecified)"]
    return chk.finish()


def metamorphic_arith(chk, rounds):
    """off-lattice, 1-5 inputs of mixed element kinds: the commutative commands against an independent evaluation with Python
    numbers (exact for ints, 1e-9 relative for floats), in the given and in a shuffled order"""
    np = lib()["__numpy__"]
    rng = random.Random(core.SEED + 71)
    for it in range(rounds):
        n = rng.randint(1, 5)
        size = rng.randint(1, 6)
        arrs, kinds = [], []
        for k in range(n):
            kind = rng.choice("if")
            vals = [rng.randint(-50, 50) if kind == "i" else rng.uniform(-50, 50) for _ in range(size)]
            arrs.append(np.ma.array(vals, mask=[rng.random() < 0.15 for _ in range(size)], dtype="int64" if kind == "i" else "float64"))
            kinds.append(kind)
        perm = list(range(n))
        rng.shuffle(perm)
        w = [rng.choice([1, 2, -1, 0.5, 3, 0.25]) for _ in range(n)]

        def ref(fn):
            out = []
            for j in range(size):
                if any(np.ma.getmaskarray(a)[j] for a in arrs):
                    out.append(None)
                else:
                    xs = [a.data[j].item() for a in arrs]
                    try:
                        out.append(fn(xs))
                    except ZeroDivisionError:
                        out.append(None)
            return out

        from functools import reduce
        import operator
        jobs = [("Sum", [], lambda xs: sum(xs)), ("Multiply", [], lambda xs: reduce(operator.mul, xs)), ("Minimum", [], min), ("Maximum", [], max),
                ("Mean", [], lambda xs: sum(xs) / len(xs)),
                ("WeightedSum", [["Weights", [snapw(x) for x in w]]], lambda xs: sum(a * b for a, b in zip(xs, w))),
                ("WeightedMean", [["Weights", [snapw(x) for x in w]]], lambda xs: sum(a * b for a, b in zip(xs, w)) / sum(w))]
        for cmd, params, fn in jobs:
            want = ref(fn)
            for order in (list(range(n)), perm):
                p2 = params
                if params:
                    p2 = [["Weights", [snapw(w[i]) for i in order]]]
                res = execute(cmd, p2, [arrs[i].copy() for i in order])
                chk.cov["evaluations"] += 1
                bad = None
                if res[0] != "ok":
                    bad = "raised %s" % res[0]
                else:
                    m = np.ma.getmaskarray(res[1])
                    d = np.ma.getdata(res[1])
                    for j in range(size):
                        if (want[j] is None) != bool(m[j]):
                            bad = "missing cells differ at %d" % j
                            break
                        if want[j] is not None and abs(float(d[j]) - want[j]) > 1e-9 * max(1.0, abs(want[j])):
                            bad = "value %r, expected %r at %d" % (float(d[j]), want[j], j)
                            break
                if bad:
                    chk.finding("C07:%s:Metamorphic" % cmd, "%s on %d inputs of kinds %s in order %s: %s" % (cmd, n, "".join(kinds), order, bad),
                                {"arrays": [[None if mm else vv.item() for vv, mm in zip(a.data, np.ma.getmaskarray(a))] for a in arrs], "kinds": kinds,
                                 "weights": w, "order": order})
                    break


def snapw(x):
    fr = Fraction(x).limit_denominator(100)
    return [fr.numerator, fr.denominator]


def check_C08(tier):
    chk = core.Check("C08", tier)
    lib()
    fams = [Family("cvc", 1, laws=["MaskRule", "FuzzyInRange", "ConvAlgebra"]),
            Family("ff", 1, laws=["MaskRule", "ConvAlgebra"]),
            Family("cva", 1, L=2, laws=["MaskRule", "FuzzyInRange", "ConvArrayAlgebra", "Equivariant"]),
            Family("cva", 1, L=3, laws=["MaskRule", "FuzzyInRange", "ConvArrayAlgebra", "Equivariant"])]
    if tier == "thorough":
        fams.append(Family("cva", 1, L=4, laws=["MaskRule", "FuzzyInRange", "ConvArrayAlgebra"]))
        fams.append(Family("cvc", 1, wide=True, laws=["MaskRule", "FuzzyInRange", "ConvAlgebra"]))
        fams.append(Family("ff", 1, wide=True, laws=["MaskRule", "ConvAlgebra"]))
    gen_families(fams)
    add_tlc_runs(chk, fams)
    s = Session(chk, "C08", only_cmds=CONV)
    for f in fams:
        s.add_family(f, variant=core.SEED % 4, label="1-D")
        # the mappings are the same on grids: one rank-2 arrangement of the same cells
        s.add_family(f, variant=core.SEED % 4, shape_fn=shape_fn_for(f, 1 if f.L != 3 else 3), label="rank-2 grid")
    s.finish()
    chk.cov["rule"] = ("TLC enumerates raw cells (k/2, k=-4..8; integers -2..4; missing) for the cell-wise conversions with threshold pairs, directions, category tables "
                       "and curves in several control-point orders (incl. error entries), fuzzy cells for CvtFromFuzzy, and every array of length 2-3 (4 thorough) over "
                       "{-1,0,1,2,4,missing} with >= 2 distinct valid values (int and float) for the data-dependent conversions (threshold defaults, Normalize, z-score variants when "
                       "the standard deviation is rational, MeanToMid); EEMSOps.Sem gives the expected arrays and the laws (thresholds -> +1/-1, inverse, fuzzy variant = clamp of "
                       "Normalize variant, control-point order irrelevant, monotonicity, extremes) are invariants; every case is executed and validated by TLC. "
                       "non-trivial = input with at least two distinct cell values")
    chk.cov["exhaustive"] = True
    chk.assumptions += ["z-score commands are checked only on data whose population variance is a rational square",
                        "NormalizeZScore's default z-score thresholds are excluded (docs and code disagree; see DESIGN.md)"]
    return chk.finish()


def array_shape(L, which):
    """exact reshapes for array-level families (no padding possible)"""
    if which == 1:
        return (2, L // 2) if L % 2 == 0 else (1, L)
    if which == 2:
        return (1, L, 1)
    if which == 3:
        return (1, L)
    if which == 4:
        return (L, 1)
    if which == 5:
        return (2, 1, L // 2) if L % 2 == 0 else (L, 1, 1)
    return (L,)


def shape_fn_for(f, which):
    if f.L == 1:
        return lambda npts: shapes_for(npts, which)
    return lambda L: array_shape(L, which)


def csv_read_array(kind, cells, shape=None):
    """array produced by the real CSV reader (mask created from MissingVal)"""
    import tempfile

    core.sut()
    from mpilot.libraries.eems.csv.io import EEMSRead

    missing = -9999
    if kind == "i" and not any(c[1] != 0 and c[0] == 0 for c in cells):
        missing = 0          # zero (a falsy number) marks the missing cells of an integer column that has no zero
    if kind != "i":
        # the declared missing value lies very close to (but is not) one of the column's values: only cells EQUAL to it are missing
        near = [c[0] / c[1] for c in cells if c[1] != 0 and c[0] != 0]
        if near:
            missing = near[0] * (1 + 2e-6)
            if any(c[1] != 0 and c[0] / c[1] == missing for c in cells):
                missing = -9999
    d = core.scratch_dir("mpv-csv-")
    path = os.path.join(d, "in.csv")
    with open(path, "w") as f:
        f.write("v\n")
        for c in cells:
            f.write((repr(missing) if c[1] == 0 else repr(c[0] // c[1] if kind == "i" else c[0] / c[1])) + "\n")
    kw = {"InFileName": path, "InFieldName": "v", "MissingVal": missing}
    if kind == "i":
        kw["DataType"] = int
    a = EEMSRead("R").execute(**kw)
    import shutil

    shutil.rmtree(d, ignore_errors=True)
    if shape is not None:
        a = a.reshape(shape)
    return a


_orig_build_array = build_array


def build_array_v(kind, cells, variant=0, shape=None, perm=None):
    if variant == 99:
        if perm is not None:
            cells = [cells[i] for i in perm]
        return csv_read_array(kind, cells, shape)
    return _orig_build_array(kind, cells, variant, shape, perm)


build_array = build_array_v


def check_C03(tier):
    chk = core.Check("C03", tier)
    np = lib()["__numpy__"]
    fams = [Family("fz", 2, laws=["MaskRule"]), Family("ar", 2, laws=["MaskRule"]), Family("cvc", 1, laws=["MaskRule"]),
            Family("ff", 1, laws=["MaskRule"]), Family("cva", 1, L=3, laws=["MaskRule"]), Family("ar", 1, laws=["MaskRule"]),
            Family("fz", 1, laws=["MaskRule"]), Family("fz", 3, laws=["MaskRule"]), Family("ar", 3, laws=["MaskRule"], sample=2)]
    if tier == "thorough":
        fams += [Family("fz", 4, laws=["MaskRule"]), Family("ar", 3, laws=["MaskRule"]), Family("cva", 1, L=4, laws=["MaskRule"]),
                 Family("fz", 2, wide=True, laws=["MaskRule"])]
    gen_families(fams)
    add_tlc_runs(chk, fams)
    s = Session(chk, "C03", clauses={"Mask", "Shape"})
    raw = {}

    def hook(variant):
        def h(f, cmd, params, arrays, res, order):
            raw.setdefault((f.tag, cmd, json.dumps(params), tuple(order)), []).append((variant, arrays, res))
        return h

    variants = [0, 1, 2, 97, 99] if tier == "quick" else [0, 1, 2, 3, 97, 99]
    for f in fams:
        for v in variants:
            if v == 99 and f.L != 1 and tier == "quick" and f.fam == "cva":
                # the reader is exercised on the packed families; array-level ones take one file per case
                pass
            s.add_family(f, variant=v, label="payload variant %s" % ("EEMSRead(MissingVal)" if v == 99 else "complete arrays as plain ndarrays" if v == 97 else v), raw_hook=hook(v))
    s.finish()
    # payload blindness: same inputs up to the numbers hidden beneath missing cells => same result, bit for bit
    nleak = 0
    for key, runs in raw.items():
        base = runs[0]
        for v, arrays, res in runs[1:]:
            chk.cov["evaluations"] += 1
            b, r = base[2], res
            same = b[0] == r[0]
            if same and b[0] == "ok" and isinstance(b[1], np.ndarray) and isinstance(r[1], np.ndarray):
                mb, mr = np.ma.getmaskarray(b[1]), np.ma.getmaskarray(r[1])
                same = b[1].shape == r[1].shape and bool((mb == mr).all())
                if same:
                    db, dr = np.ma.getdata(b[1])[~mb], np.ma.getdata(r[1])[~mr]
                    same = bool(np.array_equal(np.asarray(db, dtype=float), np.asarray(dr, dtype=float)))
            if not same:
                nleak += 1
                chk.finding("C03:%s:PayloadLeak" % key[1],
                            "%s: result depends on the numbers stored beneath missing cells (payload variant %s vs %s)" % (key[1], base[0], v),
                            {"family": key[0], "params": key[2],
                             "inputs_a": [[repr(x) for x in np.ma.getdata(a).ravel()[:12]] for a in base[1]],
                             "inputs_b": [[repr(x) for x in np.ma.getdata(a).ravel()[:12]] for a in arrays],
                             "mask": [[bool(x) for x in np.ma.getmaskarray(a).ravel()[:12]] for a in arrays],
                             "result_a": repr(b[1])[:400], "result_b": repr(r[1])[:400]})
    chk.cov["payload_variant_comparisons"] = sum(len(v) - 1 for v in raw.values())
    # the NetCDF reader (the CSV reader is payload variant 99 above): file-masked cells and MissingValue cells
    from . import netcdfio

    netcdfio.missing_data_part(chk, "C03", tier)
    chk.cov["rule"] = ("every family of EEMSCases (fuzzy operators, arithmetic with int/float kinds, cell-wise conversions, CvtFromFuzzy, data-dependent conversions on arrays) "
                       "with the missing cell in the lattice; TLC checks MaskRule (result cell missing iff an input cell there is missing or the operation is undefined there) on "
                       "EEMSOps.Sem and validates every observed result mask; each execution is repeated with different numbers hidden beneath the missing cells "
                       "(0, -9999, 1e30/123456789, and arrays produced by the real CSV reader from MissingVal) and results must be bit-identical; "
                       "the NetCDF reader is run on the NetcdfIO read cases that have missing cells in the file (with and without MissingValue) and TLC validates the result masks (NetcdfIOTrace). "
                       "non-trivial = input with at least two distinct cell values")
    chk.cov["exhaustive"] = True
    chk.assumptions += ["the payload beneath a RESULT's missing cell is free"]
    return chk.finish()


def check_C04(tier):
    chk = core.Check("C04", tier)
    np = lib()["__numpy__"]
    fams = [Family("fz", n, wide=True, laws=["FuzzyInRange"]) for n in ([1, 2] if tier == "quick" else [1, 2, 3])]
    fams += [Family("fz", 3, laws=["FuzzyInRange"]), Family("cvc", 1, laws=["FuzzyInRange"]), Family("cvc", 1, wide=True, laws=["FuzzyInRange"]),
             Family("cva", 1, L=3, laws=["FuzzyInRange"]),
             Family("ff", 1, laws=[])]        # CvtFromFuzzy consumes fuzzy results: they must still lie in [-1, +1] afterwards
    if tier == "thorough":
        fams += [Family("cva", 1, L=4, laws=["FuzzyInRange"]), Family("fz", 4, mv=False, laws=["FuzzyInRange"])]
    gen_families(fams)
    add_tlc_runs(chk, fams)
    s = Session(chk, "C04", only_cmds=set(FUZZY_PRODUCERS) | {"CvtFromFuzzy"}, clauses={"OutOfRange"})
    nraw = [0]

    def hook(f, cmd, params, arrays, res, order):
        if cmd in FUZZY_PRODUCERS and res[0] == "ok" and isinstance(res[1], np.ndarray):
            nraw[0] += 1
            r = res[1]
            m = np.ma.getmaskarray(r)
            d = np.ma.getdata(r)[~m]
            if d.size and (not np.all(np.isfinite(d)) or d.max() > 1 or d.min() < -1):
                chk.finding("C04:%s:OutOfRange" % cmd, "%s returned a non-missing value outside [-1, +1]" % cmd,
                            {"family": f.tag, "params": params, "min": repr(d.min()), "max": repr(d.max()),
                             "inputs": [repr(a)[:300] for a in arrays]})

    for f in fams:
        s.add_family(f, variant=core.SEED % 4, label="1-D", raw_hook=hook)
    for f in fams:
        if f.fam != "cva" or f.L <= 3:
            s.add_family(f, variant=96, label="1-D, single-precision data", raw_hook=hook)
        if f.L == 1 and f.n <= 2 and not f.wide:
            s.add_family(f, variant=50, shape_fn=shape_fn_for(f, 2), label="rank-2 grid, column-major memory layout", raw_hook=hook)
        if f.fam == "cva" and f.L <= 3:
            s.add_family(f, variant=97, label="complete arrays as plain ndarrays", raw_hook=hook)
    s.finish()
    stretch_C04(chk, 300 if tier == "quick" else 5000)
    chk.cov["raw_range_checks"] = nraw[0]
    chk.cov["rule"] = ("all 14 fuzzy-producing commands: fuzzy operators on a lattice that exceeds [-1,1] (k/2, k=-4..4) with weight vectors from {1,2,0,-1,1/2,3}^n (negative and zero-sum "
                       "included), conversions with thresholds, category values and curve values outside the fuzzy range, data-dependent conversions on all short arrays; TLC checks "
                       "FuzzyInRange on EEMSOps.Sem and the OutOfRange clause on every observation; the raw float results are additionally checked exactly against [-1, 1]; a stretch "
                       "pass multiplies inputs and parameters by up to 1e6 on random data. non-trivial = input with at least two distinct cell values")
    chk.cov["exhaustive"] = True
    return chk.finish()


def stretch_C04(chk, rounds):
    """random finite inputs and parameters of large magnitude: only the range is checked"""
    np = lib()["__numpy__"]
    rng = random.Random(core.SEED + 4)

    def arr(n, scale, fuzzy=False):
        vals = [rng.uniform(-1, 1) * (1 if fuzzy else scale) for _ in range(n)]
        return np.ma.array(vals, mask=[rng.random() < 0.2 for _ in range(n)])

    def nums(k, scale):
        return [[int(rng.uniform(-1, 1) * scale * 1000), 1000] for _ in range(k)]

    for it in range(rounds):
        size = rng.randint(2, 6)
        scale = rng.choice([1, 10, 1e3, 1e6])
        n = rng.randint(1, 4)
        jobs = [("FuzzyWeightedUnion", [["Weights", nums(n, scale)]], [arr(size, 1, True) for _ in range(n)]),
                ("FuzzyUnion", [], [arr(size, 1, True) for _ in range(n)]),
                ("CvtToFuzzy", [["TrueThreshold", nums(1, scale)[0]], ["FalseThreshold", nums(1, scale)[0]]], [arr(size, scale)]),
                ("CvtToFuzzy", [["Direction", rng.choice(["LowToHigh", "HighToLow"])]], [arr(size, scale)]),
                ("CvtToFuzzyCurve", [["RawValues", [[i * 1000 + rng.randint(0, 999), 1000] for i in range(3)]], ["FuzzyValues", nums(3, scale)]], [arr(size, 3)]),
                ("CvtToFuzzyCat", [["RawValues", [[0, 1], [1, 1]]], ["FuzzyValues", nums(2, scale)], ["DefaultFuzzyValue", nums(1, scale)[0]]],
                 [np.ma.array([rng.randint(0, 2) for _ in range(size)], mask=[rng.random() < 0.2 for _ in range(size)])]),
                ("CvtToFuzzyZScore", [["TrueThresholdZScore", nums(1, scale)[0]], ["FalseThresholdZScore", nums(1, scale)[0]]], [arr(size, scale)]),
                ("CvtToFuzzyCurveZScore", [["ZScoreValues", [[-1500, 1000], [0, 1], [700, 1000]]], ["FuzzyValues", nums(3, scale)]], [arr(size, scale)]),
                ("CvtToFuzzyMeanToMid", [["IgnoreZeros", rng.choice(["True", "False"])], ["FuzzyValues", nums(5, scale)]], [arr(size, scale)]),
                ("CvtToBinary", [["Threshold", nums(1, scale)[0]], ["Direction", rng.choice(["LowToHigh", "HighToLow"])]], [arr(size, scale)]),
                ("FuzzyNot", [], [arr(size, 1, True)])]
        # curves whose values stay inside [-1, 1] and reach the bounds, on raw values with awkward magnitudes: only rounding can overshoot
        base = rng.choice([0, 10, 1e3, 1.6e9])
        step = rng.choice([0.1, 1, 15, 35, 1e-3])
        k = rng.randint(2, 4)
        raws = [base + step * (i + rng.random() * 0.5) for i in range(k)]
        fv = [1.0, -1.0][::rng.choice([1, -1])] if k == 2 else ([1.0] + [rng.uniform(-1, 1) for _ in range(k - 2)] + [-1.0])[::rng.choice([1, -1])]
        cells = raws + [base - step, raws[-1] + step] + [rng.uniform(raws[0], raws[-1]) for _ in range(3)]
        as_num = lambda x: [int(round(x * 1e6)), 1000000] if abs(x) < 2000 else [int(round(x * 1000)), 1000]
        jobs.append(("CvtToFuzzyCurve", [["RawValues", [as_num(x) for x in raws]], ["FuzzyValues", [as_num(x) for x in fv]]],
                     [np.ma.array([num(as_num(c)) for c in cells])]))
        jobs.append(("CvtToFuzzy", [["TrueThreshold", as_num(raws[-1])], ["FalseThreshold", as_num(raws[0])]], [np.ma.array([num(as_num(c)) for c in cells])]))
        jobs.append(("CvtToFuzzyCurveZScore", [["ZScoreValues", [[-1, 1], [1, 3], [2, 1]]], ["FuzzyValues", [[-1, 1], [1, 7], [1, 1]]]], [np.ma.array(cells)]))
        if n >= 2:
            jobs.append(("FuzzyXOr", [], [arr(size, 1, True) for _ in range(n)]))
        jobs.append(("FuzzySelectedUnion", [["TruestOrFalsest", rng.choice(["Truest", "Falsest"])], ["NumberToConsider", [rng.randint(1, n), 1]]],
                     [arr(size, 1, True) for _ in range(n)]))
        for cmd, params, arrays in jobs:
            if any(np.ma.count(a) < 2 for a in arrays):
                continue
            res = execute(cmd, params, arrays)
            chk.cov["evaluations"] += 1
            if res[0] == "ok" and isinstance(res[1], np.ndarray):
                m = np.ma.getmaskarray(res[1])
                d = np.ma.getdata(res[1])[~m]
                d = d[np.isfinite(d)] if cmd.endswith("ZScore") or cmd == "CvtToFuzzy" else d
                if d.size and (d.max() > 1 or d.min() < -1 or not np.all(np.isfinite(d))):
                    chk.finding("C04:%s:OutOfRange" % cmd, "%s returned a non-missing value outside [-1, +1] (stretched parameters)" % cmd,
                                {"params": params, "inputs": [repr(a)[:300] for a in arrays], "result": repr(res[1])[:300]})


def check_C05(tier):
    chk = core.Check("C05", tier)
    lib()
    eq = ["Equivariant"]
    if tier == "quick":
        fams = [Family("fz", 2, laws=[]), Family("ar", 2, laws=[]), Family("cvc", 1, laws=[]), Family("ff", 1, laws=[]),
                Family("cva", 1, L=2, laws=eq), Family("cva", 1, L=3, laws=eq, sample=2), Family("fz", 1, laws=[]), Family("ar", 1, laws=[]),
                Family("fz", 1, L=3, laws=eq, mv=False, sample=8)]
    else:
        fams = [Family("fz", 2, laws=[]), Family("ar", 2, laws=[]), Family("cvc", 1, laws=[]), Family("ff", 1, laws=[]),
                Family("cva", 1, L=4, laws=eq, sample=2), Family("cva", 1, L=3, laws=eq), Family("fz", 1, laws=[]), Family("ar", 1, laws=[]),
                Family("fz", 1, L=3, laws=eq, mv=False), Family("ar", 2, L=2, laws=eq, mv=False, sample=4),
                Family("fz", 3, laws=[]), Family("ar", 3, laws=[]), Family("fz", 2, L=2, laws=eq, sample=4), Family("fz", 4, mv=False, laws=[])]
    gen_families(fams)
    add_tlc_runs(chk, fams)
    base = Session(chk, "C05")
    for f in fams:
        base.add_family(f, variant=0, label="1-D baseline")
    nbase = len(base.records)
    variants = [(1, None), (2, 11), (3, None), (4, 5), (5, None), (0, 23)] if tier == "quick" else \
               [(w, p) for w in range(6) for p in (None, 3, 8)][1:]
    labels = {}
    for (which, perm) in variants:
        for f in fams:
            lab = "shape %s%s" % ("x".join(map(str, shape_fn_for(f, which)(max(f.L, 4) if f.L > 1 else len(f.cases)))) if which else "1-D",
                                  ", common permutation seed %d" % perm if perm is not None else "")
            n0 = len(base.records)
            base.add_family(f, variant=(50 if which in (2, 4) else 0), shape_fn=shape_fn_for(f, which) if which else None, perm_seed=perm,
                            label=lab + (", column-major memory layout" if which in (2, 4) else ""))
            for rid in range(n0, len(base.records)):
                labels[rid] = lab
    # inputs that do not have one common shape have no "shape of the inputs": the commands refuse them (whichever input differs, first or last)
    ferr = Family("arerr", 0, L=0, laws=[])
    gen_families([ferr])
    add_tlc_runs(chk, [ferr])
    serr = Session(chk, "C05", clauses={"ErrorClass", "UnexpectedError", "Shape"})
    serr.add_family(ferr, variant=0, label="inputs of different shapes")
    serr.finish()
    verdicts = validate(chk, base.records)
    chk.cov["distinct_nontrivial"] += len(base.nontrivial)
    # a case whose 1-D baseline is already rejected is another property's business (C03/C06/C07/C08)
    base_bad = {}
    for rid in range(nbase):
        f, i, label, exp = base.meta[rid]
        base_bad[(f.tag, i)] = {(c, cmd, e) for c, cmd, e in verdicts[rid]}
    for rid in range(nbase, len(base.records)):
        f, i, label, exp = base.meta[rid]
        for clause, cmd, e in verdicts[rid]:
            if (clause, cmd, e) in base_bad.get((f.tag, i), ()):
                continue
            rec = base.records[rid]
            entry = rec["obs"][e - 1]
            chk.finding("C05:%s:%s" % (cmd, "Shape" if entry[2][0] == "ShapeMismatch" else clause),
                        "%s: result for %s differs from the rearranged 1-D result (%s)" % (cmd, label, entry[2][0] if entry[2][0] != "ok" else clause),
                        {"family": f.tag, "variant": label, "case": describe_case(rec["ins"], entry), "spec_result": exp[e - 1][2], "observed": entry[2]})
    for rid in (nbase + 3, nbase + 500, len(base.records) - 1):
        if 0 <= rid < len(base.records):
            rec = base.records[rid]
            chk.sample({"variant": labels.get(rid), "family": base.meta[rid][0].tag, "case": describe_case(rec["ins"], rec["obs"][-1]), "observed": rec["obs"][-1][2]})
    chk.cov["rule"] = ("every family of EEMSCases executed 1-D and again with the packed cells reshaped to rank-2 and rank-3 grids (length-1 axes included) and/or commonly permuted; "
                       "observations of every arrangement are validated by TLC against EEMSOps.Sem of the un-arranged case, and TLC checks Equivariant (Sem commutes with every "
                       "permutation of the cells, data-dependent statistics included) on the array-level families. A finding is raised only where the rearranged run is rejected and the 1-D "
                       "baseline of the same case is not. non-trivial = input with at least two distinct cell values")
    chk.cov["exhaustive"] = True
    return chk.finish()
