"""C15: serialise -> load round trip.  MPSerialize.tla (TLC) -> real to_string / from_source -> MPSerializeTrace.tla."""
from __future__ import print_function

import io
import json
import os
import re
import sys
from collections import OrderedDict

from . import core
from .eems import _tla_to_json, _STATE_RE
from .eems2 import project_program, digest
from .syntax import quote

STRS = {"plain": "abc", "spaces": "two words  here", "dquote": 'say "hi"', "squote": "it's", "backslash": "C:\\temp\\new.csv",
        "nonascii": "caf\u00e9 \"\u4e2d\u00df\" C:\\donn\u00e9es\\\u00e9t\u00e9 \U0001f600 \U0001d6fc", "delims": "a,b=(c)[d]:#e", "empty": "", "numlike": "12", "boollike": "True", "padded": " x ",
        "newline": "two\nlines\tand a tab", "hash": "# not a comment", "trailbs": "ends with \\", "path": "out dir/plots, north #3 (x86) [v2].csv", "Float": "Float",
        "key": 'Display: "Name", [x]'}
NUMS = {"int": 5, "zero": 0, "negint": -7, "bigint": 2 ** 70 + 1, "dec": 2.5, "negdec": -0.25, "smallexp": 1e-05, "bigexp": 1.5e+20, "exp22": 1e22,
        "tenth": 0.1, "whole": 100.0, "tiny": 5e-324,
        # doubles whose shortest exact text needs 16-17 significant digits
        "digits17": 0.1 + 0.2, "third": 1.0 / 3.0, "ulp16": 1e16 + 2}


BUILTIN_PROGRAMS = [
    "A = EEMSRead(InFileName = in.csv, InFieldName = a)\nB = EEMSRead(InFileName = in.csv, InFieldName = b, MissingVal = -9999)\n"
    "S = Sum(InFieldNames = [A, B])\nM = Mean(InFieldNames = [A, B])\nF = CvtToFuzzy(InFieldName = S, TrueThreshold = 0, FalseThreshold = 10)\n"
    "P = PrintVars(InFieldNames = [S, M], OutFileName = shown.txt)\nW = EEMSWrite(OutFileName = out.csv, OutFieldNames = [S, M, F])\n",
    "A = EEMSRead(InFileName = in.csv, InFieldName = a, MissingVal = 0, DataType = Integer)\nMx = Maximum(InFieldNames = [A])\nMn = Minimum(InFieldNames = [A, Mx])\n"
    "N = NormalizeMeanToMid(InFieldName = Mn, IgnoreZeros = False, NormalValues = [0, 0.25, 0.5, 0.75, 1])\n"
    "C = NormalizeCat(InFieldName = A, RawValues = [1, 2], NormalValues = [0, 0.0], DefaultNormalValue = 0)\n"
    "W = EEMSWrite(OutFileName = \"out 2.csv\", OutFieldNames = [N, C], Metadata = [Note: \"\", Zero: 0])\n",
    "A = EEMSRead(InFileName = in.csv, InFieldName = a)\nFz = CvtToFuzzy(InFieldName = A, TrueThreshold = 3, FalseThreshold = 0.0, Direction = LowToHigh)\n"
    "Not = FuzzyNot(InFieldName = Fz)\nOr = FuzzyOr(InFieldNames = [Fz, Not])\nAnd = FuzzyAnd(InFieldNames = [Or, Fz])\nXor = FuzzyXOr(InFieldNames = [Fz, Not])\n"
    "Union = FuzzyUnion(InFieldNames = [Or, And, Xor])\nCopy1 = Copy(InFieldName = Union)\nMult = Multiply(InFieldNames = [A, A])\n"
    "Div = ADividedByB(A = Mult, B = A)\nDif = AMinusB(A = Div, B = A)\nP = PrintVars(InFieldNames = [Dif, Copy1])\n",
]


def value(v, mode, prog):
    k = v[0]
    if k == "int" or k == "float":
        return NUMS[v[1]]
    if k == "bool":
        return True if mode != "source" else "true"
    if k == "str":
        if v[2] == "bare":  # a reference
            return prog.commands[v[1]] if mode == "api_clean" else v[1]
        if v[1] == "Float" and mode == "api_clean":
            return float
        return STRS[v[1]]
    if k == "list":
        return [value(x, mode, prog) for x in v[1]]
    if k == "tuple":
        return OrderedDict((value(p[0], mode, prog), value(p[1], mode, prog)) for p in v[1])
    raise ValueError(v)


def source_value(v):
    k = v[0]
    if k in ("int", "float"):
        x = NUMS[v[1]]
        t = repr(x)
        if isinstance(x, float) and "e" in t and "." not in t:
            t = t.replace("e", ".0e")
        return t
    if k == "bool":
        return "true"
    if k == "str":
        return v[1] if v[2] == "bare" else quote(STRS[v[1]], "dq")
    if k == "list":
        return "[%s]" % ", ".join(source_value(x) for x in v[1])
    if k == "tuple":
        return "[%s]" % ", ".join("%s: %s" % (source_value(p[0]), source_value(p[1])) for p in v[1])


def build(prog_abs, mode, wd):
    from mpilot.program import Program

    if mode == "source":
        src = "\n".join("%s = %s(%s)" % (c[0], c[1], ", ".join("%s = %s" % (a[0], source_value(a[1])) for a in c[2])) for c in prog_abs)
        return Program.from_source(src, libraries=("vprobe",), working_dir=wd)
    p = Program(libraries=("vprobe",), working_dir=wd)
    for res, cname, args in prog_abs:
        p.add_command(p.find_command_class(cname), res, OrderedDict((a[0], value(a[1], mode, p)) for a in args))
    return p


def check_C15(tier):
    chk = core.Check("C15", tier)
    core.sut()
    from mpilot.program import Program
    from mpilot.parser.parser import Parser

    d = core.scratch_dir("mpv-ser-")
    cfg = os.path.join(d, "s.cfg")
    size = "quick" if tier == "quick" else "full"
    with open(cfg, "w") as f:
        f.write('CONSTANTS Size = "%s"\nINIT Init\nNEXT Next\nCHECK_DEADLOCK FALSE\nINVARIANT SerializeRoundTrip\n' % size)
    dump = os.path.join(d, "st")
    r = core.run_tlc("MPSerialize", cfg, workers=8, timeout=1500, dump=dump)
    if r.violated or r.error or r.rc != 0:
        sys.stderr.write("MACHINERY FAILURE: MPSerialize %s\n%s\n" % (r.violated, r.out[-2000:]))
        sys.exit(2)
    chk.add_tlc("MPSerialize", r, "Size=%s invariant SerializeRoundTrip" % size)
    progs = []
    with open(dump + ".dump") as fh:
        txt = fh.read()
    for blk in _STATE_RE.split(txt):
        if "done = TRUE" in blk:
            m = re.search(r"/\\ prog = (.*?)(?=\n/\\ |\Z)", blk, re.S)
            progs.append(_tla_to_json(m.group(1)))
    os.unlink(dump + ".dump")
    if tier == "thorough":
        progs = [p for i, p in enumerate(progs) if i % 6 == core.SEED % 6]
    wd = core.scratch_dir("mpv-serwd-")
    records, info = [], {}
    nskip = {}
    for pi, pa in enumerate(progs):
        for mode in ("source", "api_raw", "api_clean"):
            rid = len(records)
            try:
                p1 = build(pa, mode, wd)
            except BaseException as e:
                # the program could not even be constructed: for source text that is the parser's (C10's) business
                nskip[mode] = nskip.get(mode, 0) + 1
                continue
            text = None
            try:
                text = p1.to_string()
                proj1 = project_program(p1)
            except BaseException as e:
                records.append({"id": rid, "mode": mode, "reparsed": ["err", "to_string:" + type(e).__name__], "same": False, "sameresults": False, "filesame": True})
                info[rid] = (pa, text, "to_string raised %s: %s" % (type(e).__name__, e))
                continue
            try:
                Parser().parse(text)
                p2 = Program.from_source(text, libraries=("vprobe",), working_dir=wd)
                proj2 = project_program(p2)
                rep = ["ok", ""]
            except BaseException as e:
                records.append({"id": rid, "mode": mode, "reparsed": ["err", type(e).__name__], "same": False, "sameresults": False, "filesame": True})
                info[rid] = (pa, text, "%s: %s" % (type(e).__name__, str(e)[:200]))
                continue
            same = json.dumps(proj1, default=str) == json.dumps(proj2, default=str)
            # to_file, by path and by file object: what is in the file when the call has returned is the serialisation
            filesame = True
            if rid % 3 == 0:
                try:
                    fp = os.path.join(wd, "tofile_%d.mpt" % rid)
                    p1.to_file(fp)
                    with io.open(fp, encoding="utf-8") as fh:
                        t1 = fh.read()
                    buf = io.StringIO()
                    p1.to_file(buf)
                    filesame = (t1 == text) and (buf.getvalue() == text) and not buf.closed
                    os.unlink(fp)
                except BaseException as e:
                    filesame = False
            try:
                p1.run()
                p2.run()
                sr = json.dumps([(n, digest(c._result)) for n, c in p1.commands.items()], default=str) == \
                    json.dumps([(n, digest(c._result)) for n, c in p2.commands.items()], default=str)
                if sr and p1.to_string() != text:
                    # running a program leaves its arguments as they were written: it serialises to the same text afterwards
                    sr = False
                    raise ValueError("the program serialises differently after run():\n%s" % p1.to_string()[:400])
            except BaseException as e:
                sr = False
                why_run = "run raised %s: %s" % (type(e).__name__, str(e)[:300])
            else:
                why_run = None
            records.append({"id": rid, "mode": mode, "reparsed": rep, "same": bool(same), "sameresults": bool(sr), "filesame": bool(filesame)})
            info[rid] = (pa, text, why_run if why_run else None if same else "cleaned values differ:\n%s\n%s" % (proj1[-1], proj2[-1]))
    # programs over the built-in libraries (commands whose names resemble EEMS 2.0 names, output files, falsy parameter values)
    with open(os.path.join(wd, "in.csv"), "w") as f:
        f.write("a,b\n1,4\n2,-9999\n3,6\n0,0\n")
    for bi, src in enumerate(BUILTIN_PROGRAMS):
        rid = len(records)
        text = None
        try:
            p1 = Program.from_source(src, working_dir=wd)
            if bi == 0:
                # ... and extended through the API afterwards (no line numbers): the order of the commands is the order in which they were added
                first = list(p1.commands)[0]
                p1.add_command(p1.find_command_class("Copy"), "Zlast", {"InFieldName": first})
                p1.add_command(p1.find_command_class("Copy"), "Aafter", {"InFieldName": "Zlast"})
            text = p1.to_string()
            p2 = Program.from_source(text, working_dir=wd)
            same = json.dumps(project_program(p1), default=str) == json.dumps(project_program(p2), default=str)
            rep = ["ok", ""]
        except BaseException as e:
            records.append({"id": rid, "mode": "builtin", "reparsed": ["err", type(e).__name__], "same": False, "sameresults": False, "filesame": True})
            info[rid] = (src, text, "%s: %s" % (type(e).__name__, str(e)[:200]))
            continue
        why_run = None
        try:
            out = io.StringIO()
            import contextlib

            with contextlib.redirect_stdout(out):
                p1.run()
                p2.run()
            sr = json.dumps([(n, digest(c._result)) for n, c in p1.commands.items()], default=str) == \
                json.dumps([(n, digest(c._result)) for n, c in p2.commands.items()], default=str)
        except BaseException as e:
            sr = False
            why_run = "run raised %s: %s" % (type(e).__name__, str(e)[:300])
        records.append({"id": rid, "mode": "builtin", "reparsed": rep, "same": bool(same), "sameresults": bool(sr), "filesame": True})
        info[rid] = (src, text, why_run if why_run else None if same else "the reloaded program differs")
    for mode, n in sorted(nskip.items()):
        chk.note("shape-drift: %d programs could not be constructed in mode %s and were skipped" % (n, mode))
    if not records:
        sys.stderr.write("MACHINERY FAILURE: no program could be constructed\n")
        sys.exit(2)
    chk.cov["evaluations"] += len(records)
    chk.cov["distinct_nontrivial"] += len(records)
    tdir = core.scratch_dir("mpv-sert-")
    tcfg = os.path.join(tdir, "t.cfg")
    with open(tcfg, "w") as f:
        f.write("INIT TInit\nNEXT TNext\nCHECK_DEADLOCK FALSE\nINVARIANT TReport\n")
    path = os.path.join(tdir, "t.ndjson")
    with open(path, "w") as f:
        for rec in records:
            f.write(json.dumps(rec) + "\n")
    tr = core.run_tlc("MPSerializeTrace", tcfg, workers=1, env={"TRACE_FILE": path}, timeout=900)
    if tr.rc != 0 or tr.error:
        core.tlc_fail(tr, "MPSerializeTrace")
    chk.add_tlc("MPSerializeTrace validation", tr, "TRACE_FILE=<to_string round trips>")
    verdicts = {v[1]: v[2] for v in core.parse_printt(tr.out, "VERDICT")}
    if len(verdicts) != len(records):
        sys.stderr.write("MACHINERY FAILURE: %d verdicts for %d records\n" % (len(verdicts), len(records)))
        sys.exit(2)
    chk.cov["traces_validated_against_impl"] += len(records)
    for rec in records:
        v = verdicts[rec["id"]]
        pa, text, why = info[rec["id"]]
        if v != "ok":
            sid = [a[1][1] for a in pa[1][2] if a[0] in ("S", "N")] if not isinstance(pa, str) else ["built-in libraries", pa]
            chk.finding("C15:to_string:%s:%s" % (v, rec["mode"]), "to_string of a program built from %s does not load back to the same program: %s" % (rec["mode"], v),
                        {"mode": rec["mode"], "string_and_number_ids": sid, "serialised": text, "why": why})
        elif len(chk.cov["samples"]) < 3 and rec["id"] % 101 == 7:
            chk.sample({"mode": rec["mode"], "serialised": text})
    chk.cov["rule"] = ("TLC enumerates programs over an Echo command with every parameter kind (two strings, two numbers, boolean, path, data type, number list, string list, nested list, "
                       "result, result list, metadata) with value ids for strings (quotes, backslashes, delimiters, non-ASCII, empty, number-like, newline/tab...) and numbers (big ints, decimals, "
                       "exponent forms in both directions) and checks Denote(Serialize(p)) = p on the token level; each program is built from source, through add_command with raw values, and "
                       "through add_command with already-clean values (types, command objects), serialised with the real to_string, loaded back with from_source and compared (structure, cleaned "
                       "values, results after run); TLC validates each round trip. non-trivial = every (program, construction mode)")
    chk.cov["exhaustive"] = True
    return chk.finish()
