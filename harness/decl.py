"""Export the live command declarations of the selected libraries (code -> model)."""
from __future__ import print_function

from . import core

CSV_LIBS = ("mpilot.libraries.eems.basic", "mpilot.libraries.eems.csv", "mpilot.libraries.eems.fuzzy")
NETCDF_LIBS = ("mpilot.libraries.eems.basic", "mpilot.libraries.eems.netcdf", "mpilot.libraries.eems.fuzzy")


def pcfg(param):
    from mpilot import params as P

    if isinstance(param, P.ResultParameter):
        ot = param.output_type
        want = "any" if ot is None else out_kind(ot)
        fz = {None: "any", True: "fuzzy", False: "nonfuzzy"}[param.is_fuzzy]
        return ["Result", want, fz]
    if isinstance(param, P.ListParameter):
        return ["List", pcfg(param.value_type)]
    if isinstance(param, P.PathParameter):
        return ["Path", "must" if param.must_exist else "may"]
    if isinstance(param, P.DataTypeParameter):
        return ["DataType"]
    if isinstance(param, P.TupleParameter):
        return ["Tuple"]
    if isinstance(param, P.BooleanParameter):
        return ["Boolean"]
    if isinstance(param, P.NumberParameter):
        return ["Number"]
    if isinstance(param, P.StringParameter):
        return ["String"]
    if isinstance(param, P.DataParameter):
        return ["Data"]
    return ["Any"]


def out_kind(param):
    from mpilot import params as P

    if param is None:
        return "none"
    for cls, k in ((P.DataParameter, "data"), (P.BooleanParameter, "bool"), (P.NumberParameter, "number"), (P.PathParameter, "path"),
                   (P.DataTypeParameter, "string"), (P.StringParameter, "string"), (P.ListParameter, "list"), (P.TupleParameter, "tuple")):
        if isinstance(param, cls):
            return k
    return "other"


def export(libs=CSV_LIBS):
    """[[name, [[pname, pcfg, required], ...], outkind, fuzzy, allow_extra], ...] sorted by name; parameters in declaration order
    with Metadata last."""
    core.sut()
    from mpilot.program import Program

    prog = Program(libraries=libs)
    out = []
    for name in sorted(prog.command_library):
        cls = prog.command_library[name]
        ps = [[pn, pcfg(pv), bool(pv.required)] for pn, pv in cls.inputs.items()]
        ps.sort(key=lambda x: (x[0] == "Metadata",))
        out.append([name, ps, out_kind(cls.output), "fuzzy" if getattr(cls, "is_fuzzy", False) is True else "plain",
                    bool(getattr(cls, "allow_extra_inputs", False))])
    return out


def tla(v):
    if isinstance(v, bool):
        return "TRUE" if v else "FALSE"
    if isinstance(v, str):
        return '"%s"' % v
    if isinstance(v, int):
        return str(v)
    return "<<" + ", ".join(tla(x) for x in v) + ">>"


def module_text(decl, name="MC_Decl"):
    lines = ["---- MODULE %s ----" % name,
             "\\* GENERATED at check time from the live command classes (harness/decl.py); do not edit.",
             "\\* <<name, <<<<param, configuration (MPParamsTable encoding), required>>, ...>>, output kind, fuzziness, allow_extra_inputs>>",
             "Decl == <<"]
    lines.append(",\n".join("  " + tla(d) for d in decl))
    lines += [">>", "===="]
    return "\n".join(lines) + "\n"


if __name__ == "__main__":
    import sys
    print(module_text(export(NETCDF_LIBS if "netcdf" in sys.argv else CSV_LIBS)))


def doc_export(netcdf=False, probe=None):
    """[[command, [[parameter, kind word, required], ...]], ...] parsed from /repo/docs/user/lib-eems-*.rst (".. function::" / ":param X: (:ref:`param-kind`) *Optional*.")"""
    import os
    import re

    out = []
    for part in ("basic", "fuzzy", "netcdf" if netcdf else "csv"):
        path = os.path.join(core.REPO, "docs", "user", "lib-eems-%s.rst" % part)
        if not os.path.exists(path):
            continue
        cur = None
        with open(path) as f:
            for line in f:
                m = re.match(r"\s*\.\. function:: (\w+)\(", line)
                if m:
                    cur = [m.group(1), []]
                    out.append(cur)
                    continue
                m = re.match(r"\s*:param (\w+): \((.*?)\)\s*(\*Optional\*)?", line)
                if m and cur:
                    refs = re.findall(r":ref:`param-([\w-]+)`", m.group(2))
                    cur[1].append([m.group(1), refs[0] if refs else "other", not m.group(3)])
    for c in out:
        c.append("")        # fuzziness of the result: not stated in the documentation
    if probe is None:
        probe = not netcdf        # (the probe library vextra is part of the CSV library set of the validation checks)
    if not probe or not out:
        return out
    # the probe library's own "documentation" (probe_libs/vextra.py): NotAgain is FuzzyNot under another name
    out.append(["Extras", [["Key", "string", True], ["Opt", "number", False]], "plain"])
    out.append(["NotAgain", [["InFieldName", "result", True]], "fuzzy"])
    return out


def doc_module_text(dd, name="MC_DocDecl"):
    lines = ["---- MODULE %s ----" % name, "\\* GENERATED at check time from docs/user/lib-eems-*.rst (harness/decl.py); do not edit.", "DocDecl == <<"]
    lines.append(",\n".join("  " + tla(d) for d in dd))
    lines += [">>", "===="]
    return "\n".join(lines) + "\n"
