"""C19: command registry.  MPRegistry.tla histories -> replayed in freshly forked children -> MPRegistryTrace.tla."""
from __future__ import print_function

import json
import os
import sys
from multiprocessing import Pool

from . import core

UNIVERSE = {"Foo", "Bar", "Baz", "Qux", "Zed", "EEMSRead", "EEMSWrite", "Alias", "Variant"}


def histories(maxhist, simulate=None, workers=8, pairs=True):
    d = core.scratch_dir("mpv-reg-")
    cfg = os.path.join(d, "r.cfg")
    with open(cfg, "w") as f:
        f.write('CONSTANTS PrefixRule = "component" MaxHist = %d PairsAllowed = %s\nINIT Init\nNEXT Next\nCHECK_DEADLOCK FALSE\nINVARIANT HistoryIndependent\nINVARIANT Report\n' % (maxhist, "TRUE" if pairs else "FALSE"))
    r = core.run_tlc("MPRegistry", cfg, workers=workers, timeout=1500, simulate=simulate, depth=maxhist + 2 if simulate else None, seed=core.SEED if simulate else None)
    if simulate and r.states == 0:
        import re
        m = re.search(r"The number of states generated: (\d+)", r.out)
        if m:
            r.states = r.distinct = int(m.group(1))
    if r.violated or r.error or r.rc != 0:
        sys.stderr.write("MACHINERY FAILURE: MPRegistry %s\n%s\n" % (r.violated, r.out[-2000:]))
        sys.exit(2)
    hs = []
    seen = set()
    for h in core.parse_printt(r.out, "HIST"):
        k = json.dumps(h[1])
        if k not in seen:
            seen.add(k)
            hs.append(h[1])
    return r, hs


def replay(job):
    """runs in a fresh process: the registry is process-global"""
    jid, hist = job
    import importlib

    from mpilot.commands import Command
    from mpilot.program import Program
    from mpilot.exceptions import MPilotError

    ev = []
    progs = {}
    for step, (act, arg) in enumerate(hist, 1):
        if act == "mutate":
            p = progs.get(arg)
            if p is not None:
                p.command_library["Alias"] = Command
            ev.append([act, arg, []])
        elif act == "import":
            importlib.import_module(".".join(arg))
            ev.append([act, arg, []])
        elif act == "define":
            mod, name = arg
            type(str(name), (Command,), {"__module__": ".".join(mod), "execute": lambda self, **kw: None})
            ev.append([act, arg, []])
        else:
            libs = tuple(".".join(l) for l in arg)
            if step % 2:
                libs = list(libs)      # any sequence of names is a legitimate way to ask
            try:
                p = Program(libraries=libs)
                progs[step] = p
                table = sorted([cls.__module__.split("."), name] for name, cls in p.command_library.items() if name in UNIVERSE)
                ev.append([act, arg, ["table", table]])
            except MPilotError as e:
                ev.append([act, arg, ["error", []]])
            except BaseException as e:
                ev.append([act, arg, ["crash:" + type(e).__name__, []]])
    return {"id": jid, "ev": ev}


def check_C19(tier):
    chk = core.Check("C19", tier)
    core.sut()
    import mpilot.program  # noqa: the parent holds only the core, never a library module

    loaded = [m for m in sys.modules if m.startswith("vlib_") or m.startswith("mpilot.libraries.eems.")]
    if loaded:
        sys.stderr.write("MACHINERY FAILURE: library modules already imported in the parent: %s\n" % loaded)
        sys.exit(2)
    r2, h2 = histories(2)
    chk.add_tlc("MPRegistry all histories of 2 actions", r2, 'PrefixRule="component" MaxHist=2 invariant HistoryIndependent')
    r3, h3 = histories(3, simulate="num=%d" % (300 if tier == "quick" else 4000))
    chk.add_tlc("MPRegistry simulated histories of 3 actions", r3, 'PrefixRule="component" MaxHist=3 (-simulate)')
    r3s, h3s = histories(3, pairs=False)
    chk.add_tlc("MPRegistry all histories of 3 actions over single libraries", r3s, 'PrefixRule="component" MaxHist=3 PairsAllowed=FALSE')
    hs = h2 + h3 + h3s
    jobs = list(enumerate(hs))
    with Pool(core.NCPU, maxtasksperchild=1) as pool:
        records = pool.map(replay, jobs, chunksize=1)
    chk.cov["evaluations"] += len(records)
    chk.cov["distinct_nontrivial"] += len([h for h in hs if sum(1 for a in h if a[0] == "program") >= 1 and len(h) >= 2])
    d = core.scratch_dir("mpv-regt-")
    cfg = os.path.join(d, "t.cfg")
    with open(cfg, "w") as f:
        f.write('CONSTANTS PrefixRule = "component" MaxHist = 3 PairsAllowed = TRUE\nINIT TInit\nNEXT TNext\nCHECK_DEADLOCK FALSE\nINVARIANT TReport\n')
    path = os.path.join(d, "t.ndjson")
    with open(path, "w") as f:
        for rec in records:
            f.write(json.dumps(rec) + "\n")
    tr = core.run_tlc("MPRegistryTrace", cfg, workers=1, env={"TRACE_FILE": path}, timeout=900)
    if tr.rc != 0 or tr.error:
        core.tlc_fail(tr, "MPRegistryTrace")
    chk.add_tlc("MPRegistryTrace validation", tr, "TRACE_FILE=<replayed histories>")
    verdicts = {v[1]: (v[2], v[3]) for v in core.parse_printt(tr.out, "VERDICT")}
    if len(verdicts) != len(records):
        sys.stderr.write("MACHINERY FAILURE: %d verdicts for %d histories\n" % (len(verdicts), len(records)))
        sys.exit(2)
    chk.cov["traces_validated_against_impl"] += len(records)
    for rec in records:
        v, pos = verdicts[rec["id"]]
        crashes = [e for e in rec["ev"] if e[2] and str(e[2][0]).startswith("crash")]
        if crashes:
            chk.finding("C19:registry:Crash", "Program construction raised %s" % crashes[0][2][0], {"history": rec["ev"]})
        elif v != "ok":
            prior = [e[0] for e in rec["ev"][:pos - 2]]
            chk.finding("C19:registry:%s:%s" % (v, "fresh" if not prior else "after-" + "+".join(sorted(set(prior)))),
                        "history of registry operations: %s at step %d" % (v, pos - 1), {"history": rec["ev"]})
        elif len(chk.cov["samples"]) < 3 and sum(1 for e in rec["ev"] if e[0] == "program") >= 2 and rec["id"] % 7 == 3:
            chk.sample({"history": rec["ev"]})
    chk.cov["rule"] = ("TLC explores every history of 2 registry operations (and simulated histories of 3) over import of a module, run-time definition of a command class in a module "
                       "outside every library (incl. one whose name has a requested library's name as string prefix), and Program construction for every single library and ordered pair among "
                       "vlib_a, vlib_ab (prefix-related), vlib_a.sub (sub-package), vlib_c (same command name), vlib_d (a command extending vlib_c's under the same name), the CSV and NetCDF groups (same command names), checking HistoryIndependent "
                       "(each table = Ideal(libraries), duplicates fail); every history is replayed in a freshly forked process on the real registry and validated by TLC. "
                       "non-trivial = history with a Program construction preceded by another operation")
    chk.cov["exhaustive"] = False
    return chk.finish()
