"""C16: EEMS 2.0 command files.  MPEems2.tla over the live name table and declarations -> load 2.0 text and its image."""
from __future__ import print_function

import contextlib
import io
import json
import os
import re
import shutil
import sys

from . import core, decl
from . import validate as V
from .eems import _tla_to_json, _STATE_RE


def prepare():
    d, dl = V.prepare_decl(decl.CSV_LIBS)
    core.sut()
    from mpilot.utils import EEMS_COMMANDS
    from mpilot.program import Program

    table = sorted(EEMS_COMMANDS.items())
    with open(os.path.join(d, "MC_Eems2.tla"), "w") as f:
        f.write("---- MODULE MC_Eems2 ----\n\\* GENERATED from mpilot.utils.EEMS_COMMANDS\nTable == <<\n")
        f.write(",\n".join('  <<"%s", "%s">>' % kv for kv in table))
        f.write("\n>>\n====\n")
    return d, dl, table


def project_program(prog):
    """structure and cleaned values of a loaded Program"""
    out = []
    for name, c in prog.commands.items():
        args = []
        for a in c.arguments:
            if a.name in c.inputs:
                try:
                    v = c.inputs[a.name].clean(a.value, prog, a.lineno)
                except BaseException as e:
                    v = "clean-error:" + type(e).__name__
            else:
                v = a.value
            args.append((a.name, digest(v)))
        out.append((name, type(c).__name__, type(c).__module__.split(".")[-2:] and type(c).name, args))
    return out


def digest(v):
    import numpy

    if isinstance(v, numpy.ndarray):
        m = numpy.ma.getmaskarray(v)
        return ("array", v.shape, numpy.ma.getdata(v)[~m].tolist(), m.tolist())
    if hasattr(v, "result_name"):
        return ("cmd", v.result_name)
    if isinstance(v, (list, tuple)):
        return [digest(x) for x in v]
    if isinstance(v, dict):
        return sorted((str(k), digest(x)) for k, x in v.items())
    if isinstance(v, type):
        return ("type", v.__name__)
    if isinstance(v, float):
        return ("float", repr(v))
    return (type(v).__name__, v)


def load_and_run(src, libs, wd):
    """-> ('ok', projection, results) | ('err', class)"""
    from mpilot.program import Program

    out = io.StringIO()
    with contextlib.redirect_stdout(out):
        try:
            p = Program.from_source(src, libraries=libs, working_dir=wd)
        except BaseException as e:
            return ("err", "load:" + type(e).__name__, None)
        proj = project_program(p)
        try:
            p.run()
            results = [(n, digest(c._result)) for n, c in p.commands.items()]
            return ("ok", proj, results)
        except BaseException as e:
            return ("ok", proj, "run:" + type(e).__name__)


def _r(name, col):
    return ["", "READ", [["InFileName", ["str", "rel_exists"]], ["InFieldName", ["str", "colb" if col == "b" else "word"]]]]


def _v3r(name, col):
    return [name, "EEMSRead", [["InFileName", ["str", "rel_exists"]], ["InFieldName", ["str", "colb" if col == "b" else "word"]]]]


def _fz(v2, src, new):
    args = [["InFieldName", ["ref", src]], ["TrueThreshold", ["int", "other"]], ["FalseThreshold", ["int", "bit"]]]
    return (["", "CVTTOFUZZY", args + [["NewFieldName", ["ref", new]]]] if v2 else [new, "CvtToFuzzy", args])


def _op(v2, legacy, target, ins, new, extra=()):
    args = [["InFieldNames", ["list", [["ref", i] for i in ins]]]] + [list(e) for e in extra]
    return (["", legacy, args + [["NewFieldName", ["ref", new]], ["OutFileName", ["str", "rel_missing"]]]] if v2 else [new, target, args])


def _full(legacy, target, extra=()):
    v2 = [_r("a", "a"), _r("b", "b"), _fz(True, "a", "fa"), _fz(True, "b", "fb"), _op(True, legacy, target, ["fa", "fb"], "out", extra),
          ["", "NOT", [["InFieldName", ["ref", "out"]], ["NewFieldName", ["ref", "neg"]]]]]
    v3 = [_v3r("a", "a"), _v3r("b", "b"), _fz(False, "a", "fa"), _fz(False, "b", "fb"), _op(False, legacy, target, ["fa", "fb"], "out", extra),
          ["neg", "FuzzyNot", [["InFieldName", ["ref", "out"]]]]]
    return v2, v3


FULL_MODELS = [_full("OR", "FuzzyOr"), _full("XOR", "FuzzyXOr"), _full("UNION", "FuzzyUnion"),
               _full("WTDUNION", "FuzzyWeightedUnion", (["Weights", ["list", [["int", "other"], ["float"]]]],)),
               _full("SELECTEDUNION", "FuzzySelectedUnion", (["TruestOrFalsest", ["str", "word"]], ["NumberToConsider", ["int", "other"]]))]


def check_C16(tier):
    chk = core.Check("C16", tier)
    d, dl, table = prepare()
    jo = ["-DTLA-Library=" + d]
    cfgd = core.scratch_dir("mpv-e2-")
    cfg0 = os.path.join(cfgd, "m.cfg")
    with open(cfg0, "w") as f:
        f.write("CONSTANTS AllKinds = FALSE Pairs = FALSE\nINIT InitMissing\nNEXT Next\nCHECK_DEADLOCK FALSE\n")
    r0 = core.run_tlc("MPEems2", cfg0, workers=1, timeout=300, javaopts=jo)
    if r0.error or r0.rc != 0:
        core.tlc_fail(r0, "MPEems2 (targets)")
    chk.add_tlc("MPEems2 TargetsExist", r0, "Table generated from mpilot.utils.EEMS_COMMANDS (%d names); Decl from live classes" % len(table))
    missing = core.parse_printt(r0.out, "MISSING")
    missing = sorted(missing[0][1]) if missing else []
    for n in missing:
        tgt = dict(table)[n]
        chk.finding("C16:table:TargetMissing:%s" % n, "EEMS 2.0 name %s is mapped to %s, which no library defines" % (n, tgt), {"name": n, "target": tgt})
    changed = core.parse_printt(r0.out, "CHANGED")
    for n in (sorted(changed[0][1]) if changed else []):
        chk.finding("C16:table:MeaningChanged:%s" % n, "EEMS 2.0 name %s is mapped to %s, not to the MPilot command with its EEMS 2.0 meaning (MPEems2.Meaning)" % (n, dict(table).get(n)),
                    {"name": n, "target": dict(table).get(n)})
    cfg = os.path.join(cfgd, "e.cfg")
    with open(cfg, "w") as f:
        f.write("CONSTANTS AllKinds = FALSE Pairs = FALSE\nINIT Init\nNEXT Next\nCHECK_DEADLOCK FALSE\nINVARIANT ImageIsV3\nINVARIANT ConvertIdempotent\nINVARIANT ShapeKept\n")
    dump = os.path.join(cfgd, "st")
    r = core.run_tlc("MPEems2", cfg, workers=8, timeout=900, dump=dump, javaopts=jo)
    if r.violated or r.error or r.rc != 0:
        sys.stderr.write("MACHINERY FAILURE: MPEems2 %s\n%s\n" % (r.violated, r.out[-3000:]))
        sys.exit(2)
    chk.add_tlc("MPEems2 conversion", r, "invariants ImageIsV3, ConvertIdempotent, ShapeKept")
    cases = []
    with open(dump + ".dump") as fh:
        txt = fh.read()
    for blk in _STATE_RE.split(txt):
        if "done = TRUE" not in blk:
            continue
        parts = {}
        for part in re.split(r"^/\\ ", blk.strip(), flags=re.M):
            if part.strip():
                k, _, v = part.partition(" = ")
                parts[k.strip()] = v.strip()
        cases.append((_tla_to_json(parts["v2"]), _tla_to_json(parts["image"])))
    os.unlink(dump + ".dump")
    root = core.scratch_dir("mpv-e2run-")
    records = []
    info = {}
    for ci, (v2, image) in enumerate(cases):
        variant = (core.SEED + ci) % 6
        src2, _ = V.render(v2, variant)
        src3, _ = V.render(image, variant)
        wd = os.path.join(root, "w%d" % ci)
        V.make_fixture(wd, False)
        a = load_and_run(src2, decl.CSV_LIBS, wd)
        shutil.rmtree(wd, ignore_errors=True)
        V.make_fixture(wd, False)
        b = load_and_run(src3, decl.CSV_LIBS, wd)
        shutil.rmtree(wd, ignore_errors=True)
        same = json.dumps(a, default=str, sort_keys=True) == json.dumps(b, default=str, sort_keys=True)
        if a[0] == "ok":
            img = ["ok", [[n if n is not None else "", cname, [an for an, _ in args]] for n, _, cname, args in a[1]]]
        else:
            img = ["err", a[1]]
        records.append({"id": ci, "v2": v2, "img": img, "same": bool(same)})
        info[ci] = (src2, src3, a, b)
    # whole EEMS 2.0 models (several legacy commands wired through field names), with their MPilot image written by hand
    for v2, image in FULL_MODELS:
        ci = len(records)
        src2, _ = V.render(v2, ci % 6)
        src3, _ = V.render(image, ci % 6)
        wd = os.path.join(root, "w%d" % ci)
        V.make_fixture(wd, False)
        a = load_and_run(src2, decl.CSV_LIBS, wd)
        shutil.rmtree(wd, ignore_errors=True)
        V.make_fixture(wd, False)
        b = load_and_run(src3, decl.CSV_LIBS, wd)
        shutil.rmtree(wd, ignore_errors=True)
        same = json.dumps(a, default=str, sort_keys=True) == json.dumps(b, default=str, sort_keys=True) and a[0] == "ok" and not isinstance(a[2], str)
        img = ["ok", [[n if n is not None else "", cname, [an for an, _ in args]] for n, _, cname, args in a[1]]] if a[0] == "ok" else ["err", a[1]]
        records.append({"id": ci, "v2": v2, "img": img, "same": bool(same)})
        info[ci] = (src2, src3, a, b)
    chk.cov["evaluations"] += 2 * len(records)
    chk.cov["distinct_nontrivial"] += len(records)
    verdicts = trace_validate(chk, records, d)
    nsamp = 0
    for rec in records:
        v = verdicts[rec["id"]]
        src2, src3, a, b = info[rec["id"]]
        legacy = [c for c in rec["v2"] if c[1] in dict(table)]
        name = legacy[0][1] if legacy else "mpilot-name:" + ([c[1] for c in rec["v2"] if c[0] == ""] or ["?"])[0]
        if v != "ok":
            chk.finding("C16:convert:%s:%s" % (v, name), "EEMS 2.0 file with %s: %s" % (name, v),
                        {"eems2_source": src2, "image_source": src3, "loaded_from_2.0": repr(a)[:800], "loaded_from_image": repr(b)[:800]})
        elif nsamp < 3 and rec["id"] % 97 == 3:
            nsamp += 1
            chk.sample({"eems2_source": src2, "image_source": src3, "loaded": rec["img"]})
    # the version flag must not stick to a Parser object (C16.VersionSticky lives in C11's parser-object histories as well)
    from . import syntax

    rows = []
    chk.cov["rule"] = ("the live name table (25 names) and declarations are exported; TLC reports the names whose target command does not exist and, for every other name, builds EEMS 2.0 files "
                       "(command without result name / with NewFieldName / with OutFileName / with an explicit result name, first or last among MPilot-style commands), computes their image under "
                       "Convert and checks ImageIsV3, ConvertIdempotent, ShapeKept; each 2.0 file and its image are rendered, loaded and run by the real loader and compared (result names in order, "
                       "command classes, argument names in order, cleaned values, results); TLC validates the loaded structure against Convert(v2). non-trivial = every generated file")
    chk.cov["exhaustive"] = True
    chk.assumptions += ["MPilot-style commands placed in an EEMS 2.0 file are generated without NewFieldName/OutFileName arguments (whether those are dropped there is not stated)"]
    return chk.finish()


def trace_validate(chk, records, decl_dir):
    d = core.scratch_dir("mpv-e2t-")
    cfg = os.path.join(d, "t.cfg")
    with open(cfg, "w") as f:
        f.write("CONSTANTS AllKinds = FALSE Pairs = FALSE\nINIT TInit\nNEXT TNext\nCHECK_DEADLOCK FALSE\nINVARIANT TReport\n")
    path = os.path.join(d, "t.ndjson")
    with open(path, "w") as f:
        for r in records:
            f.write(json.dumps(r) + "\n")
    r = core.run_tlc("MPEems2Trace", cfg, workers=1, env={"TRACE_FILE": path}, timeout=900, javaopts=["-DTLA-Library=" + decl_dir])
    if r.rc != 0 or r.error:
        core.tlc_fail(r, "MPEems2Trace")
    chk.add_tlc("MPEems2Trace validation", r, "TRACE_FILE=<loaded 2.0 files>")
    verdicts = {v[1]: v[2] for v in core.parse_printt(r.out, "VERDICT")}
    if len(verdicts) != len(records):
        sys.stderr.write("MACHINERY FAILURE: %d verdicts for %d records\n" % (len(verdicts), len(records)))
        sys.exit(2)
    chk.cov["traces_validated_against_impl"] += len(records)
    return verdicts
