"""C10 / C11 (+ pieces used by C15, C16): MPSyntax.tla, MPLex.tla, MPParserObj.tla -> text -> real parser -> TLC validation."""
from __future__ import print_function

import json
import os
import random
import re
import sys
import threading
from multiprocessing import Pool

from . import core

ALL_LAYOUTS = '{"SP", "TAB", "NL", "CRNL", "CR", "CMT", "BL"}'

# ----------------------------------------------------------------------------------------------
# concrete lexemes for the abstract ids of MPSyntax

NAMES = {"A": ["A", "Alpha_1", "_a9"], "B": ["B", "beta", "B2_"], "C": ["C", "Gamma", "c_c"], "Cmd": ["Cmd", "My_Command2", "EEMSRead"],
         "Other": ["Other", "Sum", "X_1y"], "READ": ["READ", "CVTTOFUZZY", "Legacy"], "P": ["P", "InFieldName", "p_1"], "Q": ["Q", "Weights", "q"],
         "R": ["R", "Metadata", "R9"]}
INTS = {"i1": ["12", "-7", "+3", "0"], "i2": ["5", "1000000", "-0", "42"]}
FLOATS = {"f1": ["5.4", "-0.25", ".5", "3.", "1.5e3", "2.E-2"], "f2": ["0.125", "-1.25E+2", "+.75", "10.0", "6.02e23", "9.5"]}
QSTRS = {"s1": ["Hello", "a b  c", "it's", 'say "hi"', "caf\u00e9 \u00fc\u4e2d", ""],
         "s2": ["x,y=(1)[2]:#z", "C:\\temp\\new.csv", "tab\there", "two\nlines", "\\", "ends with backslash-quote \\\""],
         # written over two lines: a raw line break between the quotes (the token itself advances the line)
         "sm": ["first line\nsecond line", "a,\n b", "x\n", "(\n)", "# no comment\nk: v", "\n", "dos\r\nline", "=\r\n"],
         "s3": ["/Other/Path/9.txt", " lead and trail ", "100%", "\u00b5g/L", "a\\\\b", "'q'"]}
BARES = {"w1": ["Foo", "/Path/To/123.txt", "x_1.y_2", "A+/-B", "file.txt", "3d", "False positives removed"],
         "w2": ["LowToHigh", "/a b/c d.csv", "_x", "a.b.c", "data/in.csv", "123abc", "Not True"],
         # unquoted strings containing a colon are only written as whole argument values (inside a list "a:b" is a key:value pair)
         "w3": ["C:\\path\\to\\thing", "http://host/x", "a:b", "D:\\x y\\z.nc", "k:v1", "x:/y"]}
# (keys that are identifiers, and keys that only the plain-string token can deliver)
KEYS = {"k1": ["Color", "units", "Key_1", "a/b", "%cover"], "k2": ["DisplayName", "k", "Z9", "x.y", "p%"]}
# unquoted strings the documentation shows but the lexer design cannot deliver (known-finding classes)
BARE_MULTIWORD = ["This is a string.", "Hello World", "two words"]
BARE_DOTNUM = ["file1.5", "abc.123", "v2.0"]


def pick(pool, key, variant):
    vals = pool[key]
    return vals[variant % len(vals)]


def quote(s, style):
    q = '"' if style == "dq" else "'"
    out = []
    for ch in s:
        if ch == "\\":
            out.append("\\\\")
        elif ch == q:
            out.append("\\" + q)
        elif ch == "\n":
            out.append("\\n")
        elif ch == "\t":
            out.append("\\t")
        else:
            out.append(ch)
    return q + "".join(out) + q


class Lexemes(object):
    def __init__(self, variant):
        self.v = variant

    def name(self, n):
        return pick(NAMES, n, self.v) if n in NAMES else n

    def token(self, kind, payload):
        v = self.v
        if kind == "ID":
            return self.name(payload)
        if kind == "INT":
            return pick(INTS, payload, v)
        if kind == "FLOAT":
            return pick(FLOATS, payload, v)
        if kind == "BOOL":
            return payload
        if kind == "BARE":
            return self.bare(payload)
        if kind == "QSTR":
            if payload[0] == "sm":
                return quote(self.qstr(payload[0]), payload[1]).replace("\\n", "\n")
            return quote(self.qstr(payload[0]), payload[1])
        return {"EQ": "=", "LP": "(", "RP": ")", "LB": "[", "RB": "]", "COMMA": ",", "COLON": ":"}[kind]

    def bare(self, sid):
        if sid in BARES:
            return pick(BARES, sid, self.v)
        if sid in KEYS:
            return pick(KEYS, sid, self.v)
        return sid

    def qstr(self, sid):
        if sid in QSTRS:
            return pick(QSTRS, sid, self.v)
        if sid in KEYS:
            return pick(KEYS, sid, self.v)
        if sid in BARES:
            return pick(BARES, sid, self.v)
        return sid

    def value(self, v):
        """python value the AST value denotes"""
        k = v[0]
        if k == "int":
            return int(pick(INTS, v[1], self.v))
        if k == "float":
            return float(pick(FLOATS, v[1], self.v))
        if k == "bool":
            return v[1]
        if k == "str":
            return self.bare(v[1]) if v[2] == "bare" else self.qstr(v[1])
        if k == "list":
            return [self.value(x) for x in v[1]]
        if k == "tuple":
            return {self.value(p[0]): self.value(p[1]) for p in v[1]}
        raise ValueError(v)


# (the lone carriage return is followed by a blank so that it never joins a following line feed into one CR LF break)
LAYOUT_TEXT = {"SP": " ", "TAB": "\t", "NL": "\n", "CRNL": "\r\n", "CR": "\r ", "CMT": " # a comment, with = ( ) [ ] : \"quotes\"\n", "BL": "\n\n"}


def render_text(toks, out, lex):
    parts = []
    for it in out:
        if it[0] == "T":
            k, p = toks[it[1] - 1][0], toks[it[1] - 1][1]
            parts.append(lex.token(k, p))
        else:
            parts.append(LAYOUT_TEXT[it[1]])
    return "".join(parts)


def text_from_tokens(toks, lex, sep=" "):
    return sep.join(lex.token(k, p) for k, p in toks)


# ----------------------------------------------------------------------------------------------
# projection of the real parse tree


def project(node_value):
    """ExpressionNode.value -> plain python value"""
    if isinstance(node_value, list):
        return [project(getattr(x, "value", x)) for x in node_value]
    if isinstance(node_value, dict):
        return {k: project(getattr(v, "value", v)) for k, v in node_value.items()}
    return node_value


def project_program(pn):
    cmds = []
    lines = {}
    for i, c in enumerate(pn.commands, 1):
        args = []
        lines[(i,)] = c.lineno
        for j, a in enumerate(c.arguments, 1):
            lines[(i, j)] = a.lineno
            lines[(i, j, 0)] = a.value.lineno
            _lines(a.value.value, (i, j, 0), lines)
            args.append((a.name, project(a.value.value)))
        cmds.append((c.result_name, c.command, args))
    return cmds, lines, pn.version


def _lines(val, path, lines):
    if isinstance(val, list):
        for k, x in enumerate(val, 1):
            if hasattr(x, "lineno"):
                lines[path + (k,)] = x.lineno
                _lines(x.value, path + (k,), lines)
    elif isinstance(val, dict):  # tuple pairs are keyed (their order in the dict is not the source order)
        for key, x in val.items():
            if hasattr(x, "lineno"):
                lines[path + ("key:%s" % key,)] = x.lineno


def observed_line(lines, prog, path, lex):
    """line the real parse tree carries for the node at `path` of the abstract program (-1: none)"""
    key = "/".join(map(str, path))
    if key in lines:
        return lines[key]
    if len(path) >= 4:  # maybe a tuple pair: look it up by its key
        v = prog[path[0] - 1][2][path[1] - 1][1]
        for k in path[3:-1]:
            v = v[1][k - 1]
        if v[0] == "tuple":
            k = lex.value(v[1][path[-1] - 1][0])
            return lines.get("/".join(map(str, path[:-1])) + "/key:%s" % k, -1)
    return -1


def expected_program(prog, lex):
    return [(lex.name(c[0]) if c[0] else None, lex.name(c[1]), [(lex.name(a[0]), lex.value(a[1])) for a in c[2]]) for c in prog]


def same_value(a, b):
    if type(a) is not type(b):
        return False
    if isinstance(a, list):
        return len(a) == len(b) and all(same_value(x, y) for x, y in zip(a, b))
    if isinstance(a, dict):
        return set(a) == set(b) and all(same_value(a[k], b[k]) for k in a)
    if isinstance(a, float):
        return a == b or repr(a) == repr(b)
    return a == b


def classify_mismatch(exp, got):
    """name the known lexer weaknesses precisely so that nothing else hides behind them"""
    if isinstance(exp, str) and isinstance(got, str):
        if " " in exp and got == exp.replace(" ", ""):
            return "bare-multiword-spaces-collapsed"
        if got.rstrip(" \t") == exp and got != exp:
            return "bare-trailing-space-kept"
        if any(ord(c) > 127 for c in exp):
            return "quoted-non-ascii"
        return "string"
    if isinstance(exp, list) and isinstance(got, list) and len(exp) == len(got):
        for x, y in zip(exp, got):
            if not same_value(x, y):
                return classify_mismatch(x, y)
    if isinstance(exp, dict) and isinstance(got, dict) and set(exp) == set(got):
        for k in exp:
            if not same_value(exp[k], got[k]):
                return classify_mismatch(exp[k], got[k])
    return type(exp).__name__


# ----------------------------------------------------------------------------------------------
# TLC side


def _blocks(out, tag):
    """PrintT'ed tuples starting with tag -> python lists (fast path: sequences, strings, ints, booleans only)"""
    res = []
    rx = re.compile(r'^<<\s*"%s"' % tag, re.M)
    pos = [m.start() for m in rx.finditer(out)]
    for a in pos:
        end = out.find("\n", a)
        while end != -1 and end + 1 < len(out) and out[end + 1] in " \t":
            end = out.find("\n", end + 1)
        chunk = out[a:end if end != -1 else len(out)]
        chunk = chunk.replace("<<", "[").replace(">>", "]").replace("TRUE", "true").replace("FALSE", "false")
        try:
            res.append(json.loads(chunk))
        except ValueError:
            res.append(core.parse_tla(out[a:end if end != -1 else len(out)]))
    return res


def run_syntax(progs, maxgap, layouts, simulate=None, workers=8, timeout=900, seed=None, report=True):
    d = core.scratch_dir("mpv-syn-")
    cfg = os.path.join(d, "s.cfg")
    with open(cfg, "w") as f:
        f.write('CONSTANTS Progs = "%s" MaxGap = %d LayoutKinds = %s\nINIT Init\nNEXT Next\nCHECK_DEADLOCK FALSE\n' % (progs, maxgap, layouts))
        for inv in ["RoundTrip", "LinesTrue", "CorruptionRejected", "VersionByText"] + (["Report"] if report else []):
            f.write("INVARIANT %s\n" % inv)
    r = core.run_tlc("MPSyntax", cfg, workers=workers, timeout=timeout, simulate=simulate, depth=400 if simulate else None, seed=seed)
    if simulate and r.states == 0:
        m = re.search(r"The number of states generated: (\d+)", r.out)
        if m:
            r.states = r.distinct = int(m.group(1))
    if r.violated:
        sys.stderr.write("MACHINERY FAILURE: MPSyntax violates %s\n%s\n" % (r.violated, r.out[-2000:]))
        sys.exit(2)
    if r.error or r.rc != 0:
        core.tlc_fail(r, "MPSyntax")
    renders = []
    seen = set()
    for b in _blocks(r.out, "RENDER"):
        _, prog, tc, toks, out, starts = b
        key = json.dumps([prog, tc, out])
        if key in seen:
            continue
        seen.add(key)
        renders.append({"prog": prog, "tc": tc, "toks": toks, "out": out, "starts": starts})
    return r, renders


_W = {}


def _init():
    core.sut()
    import warnings

    warnings.simplefilter("ignore")


def corruptions(toks):
    """the corruption classes of MPSyntax.Corruptions (TLC checks that each is unparsable)"""
    out = []
    n = len(toks)
    for k, t in enumerate(toks):
        if t[0] in ("LP", "RP", "LB", "RB"):
            out.append(("del-bracket", toks[:k] + toks[k + 1:]))
            out.append(("dup-bracket", toks[:k + 1] + toks[k:]))
        if t[0] == "EQ":
            out.append(("del-eq", toks[:k] + toks[k + 1:]))
            out.append(("dup-eq", toks[:k + 1] + toks[k:]))
        if t[0] == "COMMA":
            out.append(("dup-comma", toks[:k + 1] + toks[k:]))
        if t[0] in ("LP", "LB"):
            out.append(("lead-comma", toks[:k + 1] + [["COMMA", ""]] + toks[k + 1:]))
        if t[0] == "COMMA" and k + 2 < n and toks[k + 1][0] in ("INT", "FLOAT", "BOOL", "BARE", "QSTR", "ID") and toks[k + 2][0] in ("COMMA", "RB"):
            out.append(("mix-pair", toks[:k + 1] + [["BARE", "k1"], ["COLON", ""]] + toks[k + 1:]))
        if k < n - 1 and not (t[0] == "RP" and toks[k + 1][0] == "ID"):
            out.append(("truncate", toks[:k + 1]))
    return out


def parse_one(job):
    """(id, kind, text, variant) -> (id, 'ok', commands, lines, version) | (id, 'err', class, message)"""
    jid, text = job
    from mpilot.parser.parser import Parser

    try:
        pn = Parser().parse(text)
    except BaseException as e:
        return (jid, "err", type(e).__name__, str(e)[:160], isinstance(e, SyntaxError))
    cmds, lines, version = project_program(pn)
    return (jid, "ok", cmds, {"/".join(map(str, k)): v for k, v in lines.items()}, version)


def parse_many(texts):
    jobs = list(enumerate(texts))
    if not jobs:
        return []
    with Pool(core.NCPU, initializer=_init) as pool:
        return pool.map(parse_one, jobs, chunksize=max(1, len(jobs) // (core.NCPU * 8)))


# abstraction of observed values back into the spec's encoding (style is not observable)


def abstract_value(x, lex):
    v = lex.v
    if isinstance(x, bool):
        return ["?bool"]
    if isinstance(x, int):
        for k, vals in INTS.items():
            if int(vals[v % len(vals)]) == x:
                return ["int", k]
        return ["int", "?%d" % x]
    if isinstance(x, float):
        for k, vals in FLOATS.items():
            if float(vals[v % len(vals)]) == x:
                return ["float", k]
        return ["float", "?%r" % x]
    if isinstance(x, str):
        if x in ("True", "False"):
            return ["bool", x]
        for pool in (QSTRS, BARES, KEYS):
            for k, vals in pool.items():
                if vals[v % len(vals)] == x:
                    return ["str", k]
        return ["str", "?" + x[:40]]
    if isinstance(x, list):
        return ["list", [abstract_value(y, lex) for y in x]]
    if isinstance(x, dict):
        return ["tuple", sorted([[abstract_value(k, lex), abstract_value(val, lex)] for k, val in x.items()], key=json.dumps)]
    return ["?" + type(x).__name__]


def abstract_name(s, lex):
    for k, vals in NAMES.items():
        if vals[lex.v % len(vals)] == s:
            return k
    return "?" + str(s)


def abstract_program(cmds, lex):
    return [[abstract_name(r, lex) if r is not None else "", abstract_name(c, lex), [[abstract_name(a, lex), abstract_value(val, lex)] for a, val in args]]
            for r, c, args in cmds]


def validate(chk, records, module="MPSyntaxTrace"):
    if not records:
        return {}
    shards = min(core.NCPU, max(1, len(records) // 1500))
    d = core.scratch_dir("mpv-str-")
    cfg = os.path.join(d, "t.cfg")
    with open(cfg, "w") as f:
        f.write("INIT TInit\nNEXT TNext\nCHECK_DEADLOCK FALSE\nINVARIANT TReport\n"
                if module == "MPSyntaxTrace" else "INIT Init\nNEXT Next\nCHECK_DEADLOCK FALSE\nINVARIANT Report\n")
    files = []
    for s in range(shards):
        part = records[s::shards]
        if part:
            path = os.path.join(d, "t%d.ndjson" % s)
            with open(path, "w") as f:
                for r in part:
                    f.write(json.dumps(r) + "\n")
            files.append(path)
    results = [None] * len(files)

    def work(i):
        results[i] = core.run_tlc(module, cfg, workers=1, env={"TRACE_FILE": files[i]}, timeout=1800)

    ths = [threading.Thread(target=work, args=(i,)) for i in range(len(files))]
    for t in ths:
        t.start()
    for t in ths:
        t.join()
    verdicts = {}
    tot = core.TLCResult()
    for r in results:
        if r.rc != 0 or r.error:
            core.tlc_fail(r, module)
        for v in core.parse_printt(r.out, "VERDICT"):
            verdicts[v[1]] = v[2]
        tot.states += r.states
        tot.distinct += r.distinct
        tot.wall = max(tot.wall, r.wall)
    chk.add_tlc("%s validation (%d shards)" % (module, len(files)), tot, "TRACE_FILE=<recorded parses>")
    if len(verdicts) != len(records):
        sys.stderr.write("MACHINERY FAILURE: %d verdicts for %d records (%s)\n" % (len(verdicts), len(records), module))
        sys.exit(2)
    chk.cov["traces_validated_against_impl"] += len(records)
    return verdicts


def corpus(tier):
    """[(TLCResult, label, renders)]"""
    seed = core.SEED
    if tier == "quick":
        plan = [("tiny", 1, '{"NL"}', None, "exhaustive: one-argument programs x every placement of a line break"),
                ("core", 2, ALL_LAYOUTS, "num=250", "simulation: two-command programs, all value kinds, all layout kinds")]
    else:
        plan = [("tiny", 1, '{"NL"}', None, "exhaustive: one-argument programs x every placement of a line break"),
                ("tiny", 2, '{"CRNL", "CMT"}', "num=400", "simulation: one-argument programs, up to two CRLF / comment items per gap"),
                ("core", 2, ALL_LAYOUTS, "num=1200", "simulation: two-command programs"),
                ("rich", 2, ALL_LAYOUTS, "num=600", "simulation: three-command programs, nested lists")]
    out = []
    res = [None] * len(plan)

    def work(i):
        p = plan[i]
        res[i] = run_syntax(p[0], p[1], p[2], simulate=p[3], workers=8, seed=seed)

    ths = [threading.Thread(target=work, args=(i,)) for i in range(len(plan))]
    for t in ths:
        t.start()
    for t in ths:
        t.join()
    for p, (r, renders) in zip(plan, res):
        out.append((r, "MPSyntax %s (%s)" % (p[0], p[4]), renders))
    return out


def check_renderings(chk, tier, want_ast=True, want_lines=True, want_corrupt=True):
    """shared by C10 and C11: every rendering TLC produced is parsed by the real parser"""
    sets = corpus(tier)
    nvariants = 2 if tier == "quick" else 3
    texts, meta = [], []
    for r, label, renders in sets:
        chk.add_tlc(label, r, "invariants RoundTrip, LinesTrue, CorruptionRejected, VersionByText")
        for ri, rd in enumerate(renders):
            for k in range(nvariants):
                lex = Lexemes(core.SEED + ri + 7 * k)
                texts.append(render_text(rd["toks"], rd["out"], lex))
                meta.append(("render", rd, lex, None))
            if want_corrupt and ri % (7 if tier == "quick" else 3) == core.SEED % (7 if tier == "quick" else 3):
                lex = Lexemes(core.SEED + ri)
                for cname, ctoks in corruptions(rd["toks"]):
                    texts.append(text_from_tokens(ctoks, lex, sep=[" ", "\n", "  # c\n"][(ri + len(ctoks)) % 3]))
                    meta.append(("corrupt", {"toks": ctoks, "prog": rd["prog"]}, lex, cname))
    results = parse_many(texts)
    chk.cov["evaluations"] += len(results)
    records = []
    distinct = set()
    for (jid, st, *rest), text, (kind, rd, lex, cname) in zip(results, texts, meta):
        if kind == "render":
            distinct.add(json.dumps([rd["prog"], rd["out"]]))
            if st == "ok":
                cmds, lines, version = rest
                obs = abstract_program(cmds, lex)
                exp_lines = [[p, ln] for p, ln in rd["starts"]]
                obs_lines = [[p, observed_line(lines, rd["prog"], p, lex)] for p, ln in rd["starts"]]
                rec = {"id": len(records), "kind": "render", "toks": rd["toks"], "obs": ["ok", obs, version], "lines": exp_lines, "obslines": obs_lines}
            else:
                rec = {"id": len(records), "kind": "render", "toks": rd["toks"], "obs": ["err", rest[0], bool(rest[2])], "lines": [], "obslines": []}
        else:
            if st == "ok":
                rec = {"id": len(records), "kind": "corrupt", "toks": rd["toks"], "obs": ["ok", [], 0], "lines": [], "obslines": []}
            else:
                rec = {"id": len(records), "kind": "corrupt", "toks": rd["toks"], "obs": ["err", rest[0], bool(rest[2])], "lines": [], "obslines": []}
        records.append(rec)
    chk.cov["distinct_nontrivial"] += len(distinct)
    verdicts = validate(chk, records)
    out = []
    for rec, text, (kind, rd, lex, cname), res in zip(records, texts, meta, results):
        out.append((verdicts[rec["id"]], rec, text, kind, rd, lex, cname, res))
    return out


def report_syntax(chk, prop, rows, prefixes):
    nsamp = 0
    for verdict, rec, text, kind, rd, lex, cname, res in rows:
        if verdict == "ok":
            if nsamp < 3 and rec["id"] % 1231 == 17 and kind == "render":
                nsamp += 1
                chk.sample({"text": text, "ast": rd["prog"], "node_lines": rec["lines"], "observed_lines": rec["obslines"]})
            continue
        if verdict.split(".")[0] not in prefixes:
            continue
        detail = ""
        if verdict == "C10.AstMismatch" and res[1] == "ok":
            exp = expected_program(rd["prog"], lex)
            got = res[2]
            detail = "structure"
            if len(exp) == len(got):
                for (er, ec, ea), (gr, gc, ga) in zip(exp, got):
                    if er != gr or ec != gc or len(ea) != len(ga):
                        detail = "names"
                        break
                    for (en, ev), (gn, gv) in zip(ea, ga):
                        if en != gn:
                            detail = "names"
                        elif not same_value(ev, gv):
                            detail = classify_mismatch(ev, gv)
                            break
                    if detail != "structure":
                        break
        elif verdict in ("C10.RejectedWellFormed", "C10.NotSyntaxError"):
            detail = rec["obs"][1]
        elif verdict == "C10.AcceptedMalformed":
            detail = cname or ""
        chk.finding("%s:parser:%s%s" % (prop, verdict, ":" + detail if detail else ""),
                    "parse of a %s: %s %s" % ("rendering" if kind == "render" else "corrupted rendering (%s)" % cname, verdict, detail),
                    {"text": text, "ast": rd.get("prog"), "observed": res[1:4] if res[1] == "err" else res[2], "expected_lines": rec["lines"],
                     "observed_lines": rec["obslines"]})


# ----------------------------------------------------------------------------------------------
# strings (MPLex)

CLASS_CHARS = {"L": "aZq", "n": "n", "t": "t", "D": "507", "SP": " ", "DQ": '"', "SQ": "'", "BS": "\\", "HASH": "#", "COLON": ":", "COMMA": ",",
               "EQ": "=", "LP": "(", "RB": "]", "PM": "+-", "DOT": ".", "SLASH": "/", "US": "_", "NA": "\u00e9\u4e2d\u00df", "NL": "\n", "TAB": "\t"}


def run_lex(mode, maxlen, workers=4):
    d = core.scratch_dir("mpv-lex-")
    cfg = os.path.join(d, "l.cfg")
    with open(cfg, "w") as f:
        f.write('CONSTANTS MaxLen = %d Mode = "%s"\nINIT Init\nNEXT Next\nCHECK_DEADLOCK FALSE\nINVARIANT QuoteRoundTrip\nINVARIANT QuotedIsOneToken\n'
                "INVARIANT BareNeedsNoQuotes\n" % (maxlen, mode))
    dump = os.path.join(d, "lex")
    r = core.run_tlc("MPLex", cfg, workers=workers, timeout=900, dump=dump)
    if r.violated or r.error or r.rc != 0:
        sys.stderr.write("MACHINERY FAILURE: MPLex %s\n%s\n" % (r.violated, r.out[-2000:]))
        sys.exit(2)
    cases = []
    with open(dump + ".dump") as fh:
        txt = fh.read()
    for blk in re.split(r"^State \d+:\s*$", txt, flags=re.M):
        if "done = TRUE" not in blk:
            continue
        parts = {}
        for part in re.split(r"^/\\ ", blk.strip(), flags=re.M):
            if part.strip():
                k, _, v = part.partition(" = ")
                parts[k.strip()] = v.strip()
        cases.append((json.loads(parts["s"].replace("<<", "[").replace(">>", "]")), json.loads(parts["q"])))
    os.unlink(dump + ".dump")
    return r, cases


def concretise(classes, k):
    return "".join(CLASS_CHARS[c][(k + i) % len(CLASS_CHARS[c])] for i, c in enumerate(classes))


def lex_one(job):
    """parse 'A = C(P1 = <lexeme>, P2 = ...)' and return the values (or the error)"""
    jid, text = job
    from mpilot.parser.parser import Parser

    try:
        pn = Parser().parse(text)
        return (jid, "ok", [project(a.value.value) for a in pn.commands[0].arguments])
    except BaseException as e:
        return (jid, "err", type(e).__name__, isinstance(e, SyntaxError))


def check_strings(chk, prop, tier, modes=("quoted", "bare", "multiword")):
    """every string over the character classes: quoted (both quote styles) and bare; TLC validates what the lexer returned"""
    records = []
    texts = []
    plan = []
    for mode in modes:
        r, cases = run_lex(mode, (3 if mode == "quoted" else 4) if tier == "quick" else (4 if mode == "quoted" else 5), workers=6)
        chk.add_tlc("MPLex %s strings" % mode, r, "invariants QuoteRoundTrip, QuotedIsOneToken, BareNeedsNoQuotes")
        # pack 40 strings per command
        for off in range(0, len(cases), 40):
            chunk = cases[off:off + 40]
            lexemes, expect = [], []
            for i, (classes, q) in enumerate(chunk):
                s = concretise(classes, core.SEED + off + i)
                expect.append(s)
                lexemes.append(quote(s, "dq" if q == "DQ" else "sq") if mode == "quoted" else s)
            texts.append("A = C(" + ", ".join("P%d = %s" % (i, l) for i, l in enumerate(lexemes)) + ")")
            plan.append((mode, chunk, expect, lexemes))
    with Pool(core.NCPU, initializer=_init) as pool:
        results = pool.map(lex_one, list(enumerate(texts)), chunksize=4)
    # a failing pack is re-run string by string so that every string gets its own observation
    singles, splan = [], []
    for (jid, st, *rest), (mode, chunk, expect, lexemes) in zip(results, plan):
        if st == "err" or len(rest[0]) != len(chunk):
            for c, e, l in zip(chunk, expect, lexemes):
                singles.append("A = C(P = %s)" % l)
                splan.append((mode, c, e, l))
    sres = {}
    if singles:
        with Pool(core.NCPU, initializer=_init) as pool:
            for (jid, st, *rest) in pool.map(lex_one, list(enumerate(singles)), chunksize=8):
                sres[jid] = (st, rest)
    si = 0
    obs = []
    for (jid, st, *rest), (mode, chunk, expect, lexemes) in zip(results, plan):
        if st == "err" or len(rest[0]) != len(chunk):
            for c, e, l in zip(chunk, expect, lexemes):
                st1, rest1 = sres[si]
                si += 1
                obs.append((mode, c, e, l, (rest1[0][0] if st1 == "ok" and len(rest1[0]) == 1 else None), (rest1[0] if st1 == "err" else None)))
        else:
            for c, e, l, got in zip(chunk, expect, lexemes, rest[0]):
                obs.append((mode, c, e, l, got, None))
    chk.cov["evaluations"] += len(obs)
    nontriv = 0
    for mode, (classes, q), expect, lexeme, got, err in obs:
        if len(classes) >= 2:
            nontriv += 1
        same = got == expect and isinstance(got, str)
        records.append({"id": len(records), "mode": mode, "s": classes, "q": q, "same": bool(same), "err": err or ""})
    chk.cov["distinct_nontrivial"] += nontriv
    verdicts = validate(chk, records, module="MPLexTrace")
    for rec, (mode, (classes, q), expect, lexeme, got, err) in zip(records, obs):
        v = verdicts[rec["id"]]
        if v != "ok":
            detail = mode
            if mode == "multiword":
                detail = "bare-multiword-spaces-collapsed" if isinstance(got, str) and got == expect.replace(" ", "") else "bare-multiword"
            elif mode == "quoted" and isinstance(got, str):
                detail = "quoted-non-ascii" if "NA" in classes and all(c not in ("BS",) for c in classes) else \
                    "quoted-escapes" if "BS" in classes or q in classes else "quoted"
            elif mode == "quoted":
                detail = "quoted-raises-%s" % err
            chk.finding("%s:lexer:%s:%s" % (prop, v, detail), "string %r written as %s came back as %r" % (expect, lexeme, got if err is None else err),
                        {"classes": classes, "lexeme": lexeme, "expected": expect, "observed": got, "error": err})
    return obs


def check_C10(tier):
    chk = core.Check("C10", tier)
    core.sut()
    rows = check_renderings(chk, tier)
    report_syntax(chk, "C10", rows, {"C10"})
    check_strings(chk, "C10", tier)
    check_known_classes(chk, "C10")
    parser_histories(chk, tier, prop="C10")
    chk.cov["rule"] = ("TLC runs the renderer state machine of MPSyntax: exhaustively for one-argument programs with a line break at any gap, and by simulation for two/three-command programs over all "
                       "value kinds (ints, decimals, exponent floats, quoted/bare strings, nested lists, tuples, EEMS 2.0 style commands) with spaces, tabs, LF/CRLF, comments, blank lines and trailing commas, "
                       "checking RoundTrip, LinesTrue, CorruptionRejected; every rendering is concretised (2-4 lexeme variants), parsed by the real parser, abstracted back and validated by TLC against "
                       "Denote(tokens); a sample of renderings gets every single-token corruption (delete/duplicate bracket or '=', double/leading comma, truncation), which must raise SyntaxError; MPLex "
                       "enumerates every string over 21 character classes (length <= 3/4) in both quote styles and every admissible bare string, executed through the real lexer. non-trivial = distinct rendering / string of >= 2 classes")
    chk.cov["exhaustive"] = False
    chk.assumptions += ["only the core language both documentation and tests agree on is generated (no leading +/- digits in bare strings, no 'e'-exponents without decimal point)"]
    return chk.finish()


def check_known_classes(chk, prop):
    """documented unquoted strings outside the core lexer language: each failure gets its own precise signature"""
    from mpilot.parser.parser import Parser

    for cls, pool in (("bare-multiword-spaces-collapsed", BARE_MULTIWORD), ("bare-word-dot-number", BARE_DOTNUM)):
        for s in pool:
            chk.cov["evaluations"] += 1
            try:
                got = project(Parser().parse("A = C(P = %s)" % s).commands[0].arguments[0].value.value)
                err = None
            except BaseException as e:
                got, err = None, type(e).__name__
            if got != s:
                chk.finding("%s:lexer:C10.BareString:%s" % (prop, cls), "unquoted string %r parsed as %r" % (s, got if err is None else err),
                            {"text": "A = C(P = %s)" % s, "expected": s, "observed": got, "error": err})
    # quoted strings with malformed escape sequences are malformed text: a syntax error, nothing else
    for lexeme in (r'"C:\users\x.csv"', r'"a\xZZ"', r"'\N{bogus}'", r'"\U0001"'):
        chk.cov["evaluations"] += 1
        try:
            Parser().parse("A = C(P = %s)" % lexeme)
            got = "accepted"
        except SyntaxError:
            got = "SyntaxError"
        except BaseException as e:
            got = type(e).__name__
        if got not in ("SyntaxError",):
            chk.finding("%s:lexer:C10.NotSyntaxError:malformed-escape" % prop, "quoted string %s with a malformed escape: %s" % (lexeme, got), {"text": "A = C(P = %s)" % lexeme})
    # layout after a bare string that starts with a plain-only character
    for text, want in (("A = C(P = /a/b  )", "/a/b"), ("A = C(P = /a/b # c\n)", "/a/b"), ("A = C(P = /a/b\t, Q = 1)", "/a/b")):
        chk.cov["evaluations"] += 1
        try:
            got = project(Parser().parse(text).commands[0].arguments[0].value.value)
        except BaseException as e:
            got = type(e).__name__
        if got != want:
            chk.finding("%s:lexer:C10.BareString:bare-trailing-space-kept" % prop, "layout after an unquoted string became part of it: %r" % (got,),
                        {"text": text, "expected": want, "observed": got})


# ----------------------------------------------------------------------------------------------
# C11

PO_TEXTS = {"t_plain": ("A = Cmd(P = 1)\nB = Other()", 1, 3), "t_lead": ("\n# c\n\nA = Cmd(\n  P = 1\n)\nB = Other()", 4, 3),
            "t_crlf": ("\r\n\r\nA = Cmd(P = 1)\r\nB = Other()\r\n", 3, 3), "t_v2": ("\nREAD(InFieldName = x)\n", 2, 2),
            "t_split": ("\nA =\n  Cmd(P = 1)", 2, 3),
            # malformed texts: the parse raises after some lines have been lexed
            "t_bad": ("\n\nA = Cmd(\n  P = \n)\nB = Other()", -1, -1), "t_badv2": ("\nREAD(InFieldName = x)\n\nB = Other(P = [1, )\n", -1, -1),
            "t_mixbad": ("A = Cmd(P = [x, k: v], Q = )", -1, -1)}


def parser_histories(chk, tier, prop="C11"):
    d = core.scratch_dir("mpv-po-")
    cfg = os.path.join(d, "p.cfg")
    maxhist = 3 if tier == "quick" else 4
    with open(cfg, "w") as f:
        f.write('CONSTANTS ResetWhen = "start" CrLfIsOne = TRUE CmdLineFrom = "result" NParsers = 2 MaxHist = %d\nINIT Init\nNEXT Next\nCHECK_DEADLOCK FALSE\n'
                "INVARIANT LinesTrue\nINVARIANT VersionByText\nINVARIANT Report\n" % maxhist)
    r = core.run_tlc("MPParserObj", cfg, workers=4, timeout=600)
    if r.violated or r.error or r.rc != 0:
        sys.stderr.write("MACHINERY FAILURE: MPParserObj\n%s\n" % r.out[-2000:])
        sys.exit(2)
    chk.add_tlc("MPParserObj histories", r, "ResetWhen=start CrLfIsOne=TRUE CmdLineFrom=result NParsers=2 MaxHist=%d" % maxhist)
    hists = [h[1] for h in core.parse_printt(r.out, "HIST")]
    core.sut()
    from mpilot.parser.parser import Parser
    from mpilot.program import Program

    records = []
    for hi, h in enumerate(hists):
        parsers = {}
        ev = []
        for step, (pid, tid) in enumerate(h):
            text, true_line, true_ver = PO_TEXTS[tid]
            first = pid not in parsers
            if first:
                parsers[pid] = Parser()
            # interleave a from_source of an unrelated program (its own Parser) now and then
            if (hi + step) % 3 == 0:
                try:
                    Program.from_source("\n\n\nZ = Probe()\n", libraries=("vprobe",))
                except Exception:
                    pass
            try:
                pn = parsers[pid].parse(text)
                ev.append([pid, tid, true_line, true_ver, pn.commands[0].lineno, pn.version, first])
            except BaseException as e:
                ev.append([pid, tid, true_line, true_ver, -1, -1, first])
        records.append({"id": hi, "ev": ev})
    chk.cov["evaluations"] += sum(len(r["ev"]) for r in records)
    chk.cov["distinct_nontrivial"] += len(records)
    verdicts = validate(chk, records, module="MPParserObjTrace")
    for rec in records:
        v = verdicts[rec["id"]]
        if isinstance(v, list):
            v = v[0]
        if prop == "C10":
            # C10's share: acceptance depends on the text alone (clauses C10.RejectedWellFormed / C10.AcceptedMalformed of MPParserObjTrace)
            if v.startswith("C10."):
                chk.finding("C10:parserobj:%s" % v, "history of parses on shared Parser objects: %s" % v,
                            {"history": [[x[0], x[1], PO_TEXTS[x[1]][0]] for x in rec["ev"]], "events[parser,text,true line,true version,line,version,first]": rec["ev"]})
            continue
        if v != "ok":
            chk.finding("C11:parserobj:%s" % v, "history of parses on shared Parser objects: %s" % v,
                        {"history": [[e[0], e[1], PO_TEXTS[e[1]][0]] for e in rec["ev"]], "events[parser,text,true line,true version,line,version,first]": rec["ev"]})
    if records:
        chk.sample({"parse_history": records[len(records) // 2]["ev"], "texts": {k: v[0] for k, v in PO_TEXTS.items()}})


def check_C11(tier):
    from . import validate as V
    from . import decl

    chk = core.Check("C11", tier)
    core.sut()
    rows = check_renderings(chk, tier, want_corrupt=False)
    report_syntax(chk, "C11", rows, {"C11"})
    parser_histories(chk, tier)
    # error lines: every fault of C12's matrix, rendered with blank lines and comments, must carry the offender's line
    keep = []
    V.run_check(chk, "C11", tier, {"C11"}, [("csv", decl.CSV_LIBS)], keep=keep)
    libname, libs, netcdf, progs, jobs, res = keep[0] if keep else ("csv", decl.CSV_LIBS, False, [], [], [])
    step = 41 if tier == "quick" else 7
    cjobs = []
    for k in range(core.SEED % step, len(res), step):
        rec, src = res[k]
        cjobs.append((len(cjobs), "matrix", src, {}, False))
    for name, src, extra in V.RUNTIME_SCENARIOS:
        cjobs.append((len(cjobs), name, src, extra, False))
    V.run_cli(chk, "C11", cjobs, libs, {"C11"})
    chk.cov["rule"] = ("(1) every rendering produced by MPSyntax's renderer (exhaustive line-break placement for small programs, simulated blank lines / comments / CRLF / multi-line arguments for larger ones): the "
                       "lineno of every command, argument, value and list element in the real parse tree must equal the renderer's start line (LinesTrue is checked on the model); (2) every history of <= 3 parses "
                       "on two Parser objects (MPParserObj), interleaved with from_source calls; (3) every fault of the C12 matrix: the raised error's lineno must locate the offending command or argument "
                       "(MPValidateTrace clause C11.ErrorLine); (4) the command-line tool's '-->' line (MPCliTrace). non-trivial = distinct rendering / history / faulty program")
    chk.cov["exhaustive"] = False
    chk.assumptions += ["'lineno is None' counts as 'not carrying the line' only for errors of source-loaded programs raised at load or parameter-validation time"]
    return chk.finish()
