"""C20: parameter cleaning.  MPParams.tla (TLC: decision table + laws) -> clean() on the SUT -> MPParamsTrace.tla."""
from __future__ import print_function

import json
import os
import re
import sys
import threading

from . import core
from .eems import _tla_to_json, _STATE_RE


def gen_cases(deep=False, workers=8):
    d = core.scratch_dir("mpv-par-")
    cfg = os.path.join(d, "p.cfg")
    with open(cfg, "w") as f:
        f.write("CONSTANTS Deep = %s\nINIT Init\nNEXT Next\nCHECK_DEADLOCK FALSE\n" % ("TRUE" if deep else "FALSE"))
        for inv in ("Idempotent", "ErrIsParameterError", "Typed", "ItemWise"):
            f.write("INVARIANT %s\n" % inv)
    dump = os.path.join(d, "cases")
    r = core.run_tlc("MPParams", cfg, workers=workers, timeout=1500, dump=dump)
    if r.violated:
        sys.stderr.write("MACHINERY FAILURE: %s does not hold on MPParams\n%s\n" % (r.violated, r.out[-2000:]))
        sys.exit(2)
    if r.error or r.rc != 0:
        core.tlc_fail(r, "MPParams")
    cases = []
    with open(dump + ".dump") as fh:
        txt = fh.read()
    for blk in _STATE_RE.split(txt):
        if "done = TRUE" not in blk:
            continue
        parts = {}
        for part in re.split(r"^/\\ ", blk.strip(), flags=re.M):
            if part.strip():
                k, _, v = part.partition(" = ")
                parts[k.strip()] = v
        cases.append({k: _tla_to_json(parts[k]) for k in ("p", "v", "env", "res")})
    os.unlink(dump + ".dump")
    return cases, r


class World(object):
    """concrete environment: scratch directory with files, programs with one producer command"""

    def __init__(self):
        core.sut()
        import numpy
        from mpilot import params as P
        from mpilot.program import Program
        from mpilot.commands import Command

        self.np, self.P, self.Program, self.Command = numpy, P, Program, Command
        self.root = core.scratch_dir("mpv-wd-")
        os.makedirs(os.path.join(self.root, "wd", "sub"))
        with open(os.path.join(self.root, "wd", "sub", "in.csv"), "w") as f:
            f.write("a\n1\n")
        os.makedirs(os.path.join(self.root, "sub"))      # for the empty working directory: relative to the current directory
        with open(os.path.join(self.root, "sub", "in.csv"), "w") as f:
            f.write("a\n1\n")
        os.chdir(self.root)
        self.progs = {}
        self.params = {}
        self.lib = None
        self.wrap = False

    def wd(self, w):
        return {"none": None, "abs": os.path.join(self.root, "wd"), "rel": "wd", "empty": ""}[w]

    def program(self, env):
        key = json.dumps(env)
        if key not in self.progs:
            w, (state, out, fz) = env
            prog = self.Program(libraries=("vprobe",), working_dir=self.wd(w))
            cname = {"data": "OutDataFuzzy" if fz == "fuzzy" else "OutData", "number": "OutNumber", "string": "OutString",
                     "bool": "OutBool", "none": "OutNone"}[out]
            prog.add_command(prog.find_command_class(cname), "PROD", {})
            prog.add_command(prog.find_command_class("OutData"), "OTHER", {})
            if state == "finished":
                prog.commands["PROD"].run()
            self.progs[key] = prog
        return self.progs[key]

    def param(self, p):
        """parameter objects live as long as the command classes that declare them: one object per configuration for the whole check, so state kept
        inside a parameter object (a cache, a flag) meets every later environment and raw value"""
        key = json.dumps(p)
        if key not in self.params:
            self.params[key] = self._param(p)
        return self.params[key]

    def _param(self, p):
        P = self.P
        k = p[0]
        if k == "String":
            return P.StringParameter()
        if k == "Number":
            return P.NumberParameter()
        if k == "Boolean":
            return P.BooleanParameter()
        if k == "Path":
            return P.PathParameter(must_exist=(p[1] == "must"))
        if k == "Result":
            want = {"any": None, "data": P.DataParameter(), "number": P.NumberParameter(), "string": P.StringParameter(),
                    "bool": P.BooleanParameter()}[p[1]]
            fz = {"any": None, "fuzzy": True, "nonfuzzy": False}[p[2]]
            return P.ResultParameter(want, is_fuzzy=fz)
        if k == "List":
            return P.ListParameter(self._param(p[1]))
        if k == "Tuple":
            return P.TupleParameter()
        if k == "Data":
            return P.DataParameter()
        if k == "DataType":
            return P.DataTypeParameter()
        raise ValueError(p)

    STR = {"intstr": ["3", "-12", "007"], "floatstr": ["3.5", "-0.25"], "expstr": ["1e3", "2.5E-2"], "boolword": ["true", "False", "TRUE"],
           "bit": ["0", "1"], "word": ["abc", "Hello World", "x=1"], "empty": [""], "typename": ["Float", "Integer"],
           "resname_ok": ["PROD"], "resname_dangling": ["NOPE"], "rel_exists": ["sub/in.csv"], "rel_missing": ["sub/nope.csv"]}

    def make(self, v, prog, k):
        """concrete representative number k of abstract raw kind v"""
        np = self.np
        t = v[0]
        if t == "int":
            return [0, 1][k % 2] if v[1] == "bit" else [3, -12, 7000000][k % 3]
        if t == "float":
            return [2.5, -0.75, 100.125][k % 3]
        if t == "bool":
            return [True, False][k % 2]
        if t == "str":
            f = v[1]
            if f == "abs_exists":
                return os.path.join(self.root, "wd", "sub", "in.csv")
            if f == "abs_missing":
                return os.path.join(self.root, "wd", "sub", "none.csv")
            if f == "abs_joined":
                return os.path.join(self.root, "wd", "sub/in.csv")
            if f == "abs_joined_missing":
                return os.path.join(self.root, "wd", "sub/nope.csv")
            if f == "rel_joined":
                return os.path.join("wd", "sub/in.csv")
            r = self.STR[f]
            return r[k % len(r)]
        if t in ("list", "pytuple"):
            items = [self.make(x, prog, k + i) for i, x in enumerate(v[1])]
            if self.wrap and t == "list":        # as the parser delivers a nested list: inner lists wrapped as list arguments
                from mpilot.arguments import ListArgument

                items = [ListArgument("P", x, lineno=7, list_linenos=[7] * len(x)) if isinstance(x, list) else x for x in items]
            return items if t == "list" else tuple(items)
        if t == "dict":
            return {"strs": {"a": "b", "Color": "Blue"}, "mixed": {"a": 1, "k": 2.5}, "empty": {}}[v[1]]
        if t == "cmd":
            return prog.commands["PROD"]
        if t == "type":
            return [float, int][k % 2]
        if t == "array":
            return np.ma.array([1.0, 2.0, 3.0], mask=[False, True, False])
        raise ValueError(v)

    # ---- abstraction of concrete values
    def classify(self, x, p, raw_v, raw):
        np = self.np
        if isinstance(x, bool):
            return ["bool"]
        if isinstance(x, int):
            return ["int", "bit" if x in (0, 1) else "other"]
        if isinstance(x, float):
            return ["float"]
        if isinstance(x, str):
            base = p
            while base[0] == "List":
                base = base[1]
            if base[0] == "Path":
                if os.path.isabs(x):
                    if raw_v[0] == "str" and x == raw:
                        return ["str", raw_v[1]]
                    return ["str", "abs_joined" if os.path.exists(x) else "abs_joined_missing"]
                if raw_v[0] == "str" and x == raw:
                    return ["str", raw_v[1]]
                return ["str", "rel_joined"]
            if raw_v[0] == "str" and x == raw:
                return ["str", raw_v[1]]
            if x in ("0", "1"):
                return ["str", "bit"]
            if re.match(r"^-?\d+$", x):
                return ["str", "intstr"]
            if x.lower() in ("true", "false"):
                return ["str", "boolword"]
            try:
                float(x)
                return ["str", "floatstr"]
            except ValueError:
                return ["str", "word" if x else "empty"]
        if isinstance(x, self.Command):
            return ["cmd"]
        if isinstance(x, type):
            return ["type"]
        if isinstance(x, np.ndarray):
            return ["array"]
        if isinstance(x, dict):
            return ["dict", "empty" if not x else ("strs" if all(isinstance(k, str) and isinstance(val, str) for k, val in x.items()) else "mixed")]
        if isinstance(x, (list, tuple)):
            rv = raw_v[1] if raw_v[0] in ("list", "pytuple") and len(raw_v[1]) == len(x) else None
            items = [self.classify(y, p[1] if p[0] == "List" else p, rv[i] if rv else ["?"], raw[i] if rv else None) for i, y in enumerate(x)]
            return ["list" if isinstance(x, list) else "pytuple", items]
        return ["other:" + type(x).__name__]

    def expected_value(self, p, raw, prog, ok):
        """the documented concrete value for a raw value the table accepts (None = not checked)"""
        k = p[0]
        try:
            if k == "String":
                return ("v", str(raw))
            if k == "Number":
                if isinstance(raw, (int, float)) and not isinstance(raw, bool):
                    return ("vt", raw)
                if isinstance(raw, str):
                    try:
                        return ("vt", int(raw))
                    except ValueError:
                        return ("vt", float(raw))
            if k == "Boolean":
                if isinstance(raw, bool):
                    return ("vt", raw)
                if isinstance(raw, int):
                    return ("vt", bool(raw))
                if isinstance(raw, str):
                    return ("vt", raw.lower() == "true" if raw.lower() in ("true", "false") else bool(int(raw)))
            if k == "Path":
                if os.path.isabs(raw):
                    return ("v", raw)
                return ("v", os.path.join(prog.working_dir, raw))
            if k == "Result":
                return ("is", prog.commands["PROD"])
            if k == "Tuple":
                return ("v", {str(a): str(b) for a, b in raw.items()} if raw else {})
            if k == "Data":
                return ("is", raw)
            if k == "DataType":
                return ("is", {"Float": float, "Integer": int}.get(raw, raw))
            if k == "List":
                return ("list", [self.expected_value(p[1], r, prog, ok) for r in raw])
        except Exception:
            return None
        return None

    def matches(self, exp, got):
        if exp is None:
            return True
        how, val = exp
        if how == "v":
            return got == val and type(got) == type(val)
        if how == "vt":
            return type(got) is type(val) and got == val
        if how == "is":
            return got is val
        if how == "list":
            return isinstance(got, list) and len(got) == len(val) and all(self.matches(e, g) for e, g in zip(val, got))
        return True

    def freeze(self, x):
        np = self.np
        if type(x).__name__ in ("Argument", "ListArgument") and hasattr(x, "value"):
            return ("arg", type(x).__name__, id(x), getattr(x, "lineno", None), self.freeze(x.value))
        if isinstance(x, np.ndarray):
            return ("arr", x.dtype.str, x.shape, np.ma.getdata(x).tobytes(), np.ma.getmaskarray(x).tobytes())
        if isinstance(x, self.Command):
            return ("cmd", id(x))
        if isinstance(x, dict):
            return ("dict", tuple((repr(k), self.freeze(v)) for k, v in x.items()))
        if isinstance(x, (list, tuple)):
            return (type(x).__name__, tuple(self.freeze(y) for y in x))
        return (type(x).__name__, repr(x))

    def unwrap(self, x):
        """the plain value behind parser wrappers (a fresh structure for lists)"""
        if type(x).__name__ in ("Argument", "ListArgument") and hasattr(x, "value"):
            return self.unwrap(x.value)
        if isinstance(x, list):
            return [self.unwrap(y) for y in x]
        return x

    def freeze_program(self, prog):
        return (prog.working_dir, tuple((name, id(c), c.is_finished, getattr(c, "is_running", False), id(c._result), len(c.arguments))
                                        for name, c in prog.commands.items()), tuple(sorted(prog.command_library)))

    def equal(self, a, b):
        return self.freeze(a) == self.freeze(b)


def observe(world, case, k, wrap=False):
    from . import tracer

    p, v, env = case["p"], case["v"], case["env"]
    prog = world.program(env)
    param = world.param(p)
    world.wrap = wrap
    raw = world.make(v, prog, k)
    world.wrap = False
    snap = world.freeze(raw)
    plain = world.unwrap(raw)
    psnap = world.freeze_program(prog)
    n0 = len([e for e in tracer.EV if e["ev"] == "exec_begin"])

    def call(x):
        try:
            return ("ok", param.clean(x, prog, lineno=7))
        except BaseException as e:
            return ("err", e)

    r1 = call(raw)
    r2 = call(raw)
    if r1[0] == "ok":
        kind = world.classify(r1[1], p, v, plain)
        repeat = r2[0] == "ok" and world.equal(r1[1], r2[1])
        r3 = call(r1[1])
        idem = "err" if r3[0] == "err" else ("same" if world.equal(r3[1], r1[1]) else "diff")
        valeq = world.matches(world.expected_value(p, plain, prog, True), r1[1])
        out = ["ok", kind]
        shown = repr(r1[1])[:120]
    else:
        repeat = r2[0] == "err" and type(r2[1]) is type(r1[1])
        idem = "na"
        valeq = True
        out = ["err", type(r1[1]).__name__]
        shown = "%s(lineno=%r)" % (type(r1[1]).__name__, getattr(r1[1], "lineno", None))
    nexec = len([e for e in tracer.EV if e["ev"] == "exec_begin"]) - n0
    obs = out + [bool(repeat), idem, world.freeze(raw) == snap, world.freeze_program(prog) == psnap, bool(valeq), nexec]
    return obs, repr(raw)[:120], shown


def check_C20(tier):
    chk = core.Check("C20", tier)
    world = World()
    from . import tracer

    tracer.reset()
    cases, r = gen_cases(deep=(tier == "thorough"))
    chk.add_tlc("MPParams decision table", r, "Deep=%s invariants=Idempotent,ErrIsParameterError,Typed,ItemWise" % (tier == "thorough"))
    # make sure executions caused by cleaning would be seen
    tracer.install()
    records = []
    meta = {}
    reps = 2 if tier == "quick" else 3
    nontrivial = set()
    for ci, case in enumerate(cases):
        nrep = reps if case["v"][0] not in ("list", "pytuple") or len(json.dumps(case["v"])) < 60 else 1
        for k in range(nrep):
            nested = case["v"][0] == "list" and any(x[0] == "list" for x in case["v"][1])
            obs, rawtxt, shown = observe(world, case, k + core.SEED, wrap=nested and k == nrep - 1)
            rid = len(records)
            records.append({"id": rid, "p": case["p"], "v": case["v"], "env": case["env"], "obs": obs})
            meta[rid] = (case, rawtxt, shown)
        if case["res"][0] != "unspec":
            nontrivial.add(ci)
    chk.cov["evaluations"] = len(records)
    chk.cov["distinct_nontrivial"] = len(nontrivial)
    verdicts = validate(chk, records)
    shown = 0
    for rid in sorted(verdicts):
        case, rawtxt, out = meta[rid]
        if verdicts[rid] != "ok":
            pname = json.dumps(case["p"]).replace('"', "")
            chk.finding("C20:%s:%s" % (case["p"][0] if case["p"][0] != "List" else "List(%s)" % case["p"][1][0], verdicts[rid]),
                        "clean() of %s for raw value %s: %s" % (pname, rawtxt, verdicts[rid]),
                        {"parameter": case["p"], "raw_kind": case["v"], "raw": rawtxt, "env": case["env"], "table_says": case["res"],
                         "observed": records[rid]["obs"], "returned": out})
        elif shown < 4 and rid % 1543 == 11:
            shown += 1
            chk.sample({"parameter": case["p"], "raw": rawtxt, "env": case["env"], "table_says": case["res"], "returned": out,
                        "obs[outcome,kind,repeat,idem,rawsame,progsame,valeq,nexec]": records[rid]["obs"]})
    # the same promise one level up: Program.run() cleans every argument of every command (twice) and leaves the raw arguments as they were
    for wd in (world.wd("abs"), world.wd("rel")):
        src = ("PROD = OutData()\nNUM = OutNumber()\n"
               "E = Echo(S = abc, S2 = \"two words\", N = 3, N2 = \"2.5\", B = true, P = sub/in.csv, DT = Float, L = [1, 2.5, \"7\"], LS = [a, \"b c\"],\n"
               "         NL = [[1], [2, 3.5]], R = PROD, RL = [PROD, NUM], Metadata = [Color: Blue, Zero: 0])\n")
        prog = world.Program.from_source(src, libraries=("vprobe",), working_dir=wd)
        before = [(n, [(a.name, world.freeze(a.value)) for a in c.arguments]) for n, c in prog.commands.items()]
        text = prog.to_string()
        prog.run()
        prog.run()
        after = [(n, [(a.name, world.freeze(a.value)) for a in c.arguments]) for n, c in prog.commands.items()]
        chk.cov["evaluations"] += 1
        if before != after or prog.to_string() != text:
            changed = [(n, x[0], repr(x[1])[:80], repr(y[1])[:80]) for (n, xs), (_, ys) in zip(before, after) for x, y in zip(xs, ys) if x != y]
            chk.finding("C20:Program.run:C20.Mutated", "Program.run() altered the raw arguments of its commands", {"source": src, "working_dir": wd, "changed[command, argument, before, after]": changed[:6]})
    chk.cov["rule"] = ("TLC enumerates every (parameter configuration x raw value kind x environment) cell of MPParams.Clean - 9 parameter classes incl. Path(must/may), "
                       "Result(5 wanted kinds x 3 fuzziness), List(item type) and nested lists; raw kinds int/float/bool/14 string forms/lists/python tuples/dicts/command/type/array; "
                       "working directory none/abs/rel; producer finished/new x 5 output kinds x fuzzy - and checks Idempotent, ErrIsParameterError, Typed, ItemWise on the table; "
                       "each cell is executed with 2-3 concrete representatives: clean(v), clean(v) again, clean(clean(v)), deep comparison of the raw value and the program before/after; "
                       "TLC validates every observation against the table. non-trivial = cell where the table demands a definite outcome (not 'unspecified')")
    chk.cov["exhaustive"] = True
    chk.assumptions += ["'unspecified' cells (e.g. Number <- True, Boolean <- 2, String <- list) accept any documented type or parameter error, never another exception"]
    return chk.finish()


def validate(chk, records):
    shards = min(core.NCPU, max(1, len(records) // 3000))
    d = core.scratch_dir("mpv-ptr-")
    cfg = os.path.join(d, "t.cfg")
    with open(cfg, "w") as f:
        f.write("INIT Init\nNEXT Next\nCHECK_DEADLOCK FALSE\nINVARIANT Report\n")
    files = []
    for s in range(shards):
        part = records[s::shards]
        if part:
            path = os.path.join(d, "o%d.ndjson" % s)
            with open(path, "w") as f:
                for r in part:
                    f.write(json.dumps(r) + "\n")
            files.append(path)
    results = [None] * len(files)

    def work(i):
        results[i] = core.run_tlc("MPParamsTrace", cfg, workers=1, env={"TRACE_FILE": files[i]}, timeout=1800)

    ths = [threading.Thread(target=work, args=(i,)) for i in range(len(files))]
    for t in ths:
        t.start()
    for t in ths:
        t.join()
    verdicts = {}
    tot = core.TLCResult()
    for r in results:
        if r.rc != 0 or r.error:
            core.tlc_fail(r, "MPParamsTrace")
        for v in core.parse_printt(r.out, "VERDICT"):
            verdicts[v[1]] = v[2]
        tot.states += r.states
        tot.distinct += r.distinct
        tot.wall = max(tot.wall, r.wall)
    chk.add_tlc("MPParamsTrace validation (%d shards)" % len(files), tot, "TRACE_FILE=<observations>")
    if len(verdicts) != len(records):
        sys.stderr.write("MACHINERY FAILURE: %d verdicts for %d records\n" % (len(verdicts), len(records)))
        sys.exit(2)
    chk.cov["traces_validated_against_impl"] += len(records)
    return verdicts
