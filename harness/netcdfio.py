"""C18: NetCDF fidelity.  NetcdfIO.tla (TLC) -> datasets made with netCDF4 -> real EEMSRead / EEMSWrite -> NetcdfIOTrace.tla."""
from __future__ import print_function

import json
import os
import re
import sys
import threading
from collections import OrderedDict
from fractions import Fraction
from multiprocessing import Pool

from . import core, decl
from .eems import _tla_to_json, _STATE_RE

LIBS = ("mpilot.libraries.eems.netcdf", "vprobe")


def gen_cases(mode, workers=8):
    d = core.scratch_dir("mpv-nc-")
    cfg = os.path.join(d, "n.cfg")
    with open(cfg, "w") as f:
        f.write('CONSTANTS Mode = "%s"\nINIT Init\nNEXT Next\nCHECK_DEADLOCK FALSE\n' % mode)
        for inv in ("ShapeKept", "DefaultIsFloat", "MissingMasked", "FuzzyInRange", "PositiveChecked", "RoundTripUnionMask"):
            f.write("INVARIANT %s\n" % inv)
    dump = os.path.join(d, "st")
    r = core.run_tlc("NetcdfIO", cfg, workers=workers, timeout=1500, dump=dump)
    if r.violated or r.error or r.rc != 0:
        sys.stderr.write("MACHINERY FAILURE: NetcdfIO %s\n%s\n" % (r.violated, r.out[-2000:]))
        sys.exit(2)
    cases = []
    with open(dump + ".dump") as fh:
        txt = fh.read()
    for blk in _STATE_RE.split(txt):
        if "done = TRUE" not in blk:
            continue
        parts = {}
        for part in re.split(r"^/\\ ", blk.strip(), flags=re.M):
            if part.strip():
                k, _, v = part.partition(" = ")
                parts[k.strip()] = v.strip()
        cases.append({"mode": mode, "grids": _tla_to_json(parts["grids"]), "mv": _tla_to_json(parts["mv"]), "dt": json.loads(parts["dt"])})
    os.unlink(dump + ".dump")
    return r, cases


_W = {}


def _init():
    core.sut()
    import warnings

    warnings.simplefilter("ignore")
    _W["root"] = core.scratch_dir("mpv-ncrun-")


def to_array(grid, nomask=False):
    import numpy as np

    shape, kind, cells = grid
    vals = [(0 if c[1] == 0 else (c[0] // c[1] if kind == "i" else c[0] / c[1])) for c in cells]
    if nomask and not any(c[1] == 0 for c in cells):
        # a result without any missing cell usually carries no mask array at all (numpy.ma.nomask)
        return np.ma.array(vals, dtype="int64" if kind == "i" else "float64").reshape(shape)
    a = np.ma.array(vals, mask=[c[1] == 0 for c in cells], dtype="int64" if kind == "i" else "float64").reshape(shape)
    return a


def dims_for(shape):
    return ["y", "x"][-len(shape):] if len(shape) <= 2 else ["t", "y", "x"]


def make_dataset(path, shape, variables, crs=True, packed=False, classic=False):
    """a dataset with coordinate variables, an optional CRS variable and the given data variables (name -> masked array)"""
    from netCDF4 import Dataset
    import numpy as np

    names = dims_for(shape)
    # (a template may be a classic-model file - GDAL writes those -, which has no 64-bit integer type)
    with Dataset(path, "w", **({"format": "NETCDF4_CLASSIC"} if classic else {})) as ds:
        for nm, n in zip(names, shape):
            ds.createDimension(nm, n)
            if packed and nm == "y":        # a coordinate stored packed (CF scale_factor / add_offset): readers see the unpacked values
                v = ds.createVariable(nm, "i2", (nm,))
                v.scale_factor = 0.25
                v.add_offset = -7.0
            else:
                v = ds.createVariable(nm, "f8", (nm,))
            v[:] = np.arange(n, dtype=float) * 0.25 + (100.5 if nm == "x" else -7.0 if packed else -7.125)
            v.units = "degrees_east" if nm == "x" else "degrees_north"
        if crs:
            c = ds.createVariable("crs", "i4", ())
            c.grid_mapping_name = "latitude_longitude"
        for vn, arr in variables.items():
            isint = arr.dtype.kind == "i" and not classic
            v = ds.createVariable(vn, "i8" if isint else "f8", names, fill_value=(-2 ** 40 if isint else 9.96921e36))
            if crs:
                v.grid_mapping = "crs"
                v.esri_pe_string = "GEOGCS[x]"
            v[:] = arr


def snap(x):
    fr = Fraction(float(x)).limit_denominator(1000000)
    if abs(float(fr) - float(x)) <= 1e-9 * max(1.0, abs(float(x))):
        return [fr.numerator, fr.denominator]
    return [int(float(x) * 1000), -1]


def observe(arr, np):
    if not isinstance(arr, np.ndarray):
        return ["err", "NotAnArray", True]
    m = np.ma.getmaskarray(arr).ravel()
    d = np.ma.getdata(arr).ravel()
    return ["ok", "i" if arr.dtype.kind in "iu" else "f", list(arr.shape), [[0, 0] if m[k] else snap(d[k]) for k in range(len(d))]]


def run_case(job):
    jid, case = job
    import numpy as np
    from mpilot.program import Program
    from mpilot.exceptions import MPilotError
    from netCDF4 import Dataset
    from vprobe import cmds as vp

    wd = os.path.join(_W["root"], "c%d" % jid)
    os.makedirs(wd)
    rec = {"id": jid, "mode": case["mode"], "grids": case["grids"], "mv": case["mv"], "dt": case["dt"], "obs": [], "dimsok": True, "again": []}

    def read(p, name, fname, var, extra):
        args = OrderedDict([("InFileName", fname), ("InFieldName", var)] + extra)
        p.add_command(p.find_command_class("EEMSRead"), name, args)
        try:
            return observe(p.commands[name].result, np)
        except BaseException as e:
            return ["err", type(e).__name__, isinstance(e, MPilotError)]

    try:
        if case["mode"] == "read":
            g = case["grids"][0]
            make_dataset(os.path.join(wd, "in.nc"), g[0], {"v": to_array(g)}, crs=(jid % 2 == 0))
            p = Program(libraries=LIBS, working_dir=wd)
            extra = []
            if case["mv"]:
                extra.append(("MissingValue", case["mv"][0][0] / case["mv"][0][1] if case["mv"][0][1] != 1 else case["mv"][0][0]))
            if case["dt"]:
                extra.append(("DataType", case["dt"]))
            rec["obs"].append(read(p, "R", "in.nc", "v", extra))
            # the same variable read once more in the same process, with the default options: what an earlier read did to its own result is its own business
            rec["again"] = read(p, "R2", "in.nc", "v", [])
        else:
            gs = case["grids"]
            make_dataset(os.path.join(wd, "tmpl.nc"), gs[0][0], {"t": to_array(gs[0])}, crs=(jid % 2 == 0), packed=(jid % 4 == 1), classic=(jid % 5 == 2))
            p = Program(libraries=LIBS, working_dir=wd)
            names = []
            for i, g in enumerate(gs):
                vp.ARRAYS["g%d" % i] = to_array(g, nomask=(jid % 3 != 0))
                if jid % 3 == 1 and isinstance(vp.ARRAYS["g%d" % i], np.ma.MaskedArray):
                    vp.ARRAYS["g%d" % i].fill_value = -7777      # a result may carry its own fill value
                nm = ["Z_first", "A_second", "M_third"][i]
                p.add_command(p.find_command_class("ArrayConst"), nm, {"Key": "g%d" % i})
                names.append(nm)
            p.add_command(p.find_command_class("EEMSWrite"), "W", OrderedDict([("OutFileName", "out.nc"), ("OutFieldNames", names),
                                                                                ("DimensionFileName", "tmpl.nc"), ("DimensionFieldName", "t")]))
            try:
                p.commands["W"].result
                with Dataset(os.path.join(wd, "tmpl.nc")) as a, Dataset(os.path.join(wd, "out.nc")) as b:
                    for dn in dims_for(gs[0][0]):
                        if dn not in b.variables or b.dimensions[dn].size != a.dimensions[dn].size or not np.array_equal(np.ma.getdata(a[dn][:]), np.ma.getdata(b[dn][:])) \
                                or getattr(b[dn], "units", None) != getattr(a[dn], "units", None):
                            rec["dimsok"] = False
                    for nm in names:
                        if tuple(b[nm].dimensions) != tuple(a["t"].dimensions):
                            rec["dimsok"] = False
                for i, g in enumerate(gs):
                    rec["obs"].append(read(p, "B%d" % i, "out.nc", names[i], [("DataType", "Integer")] if g[1] == "i" else []))
                # the same first result written once more, alone: what was written with it before must not matter
                p.add_command(p.find_command_class("EEMSWrite"), "W2", OrderedDict([("OutFileName", "out2.nc"), ("OutFieldNames", names[:1]),
                                                                                     ("DimensionFileName", "tmpl.nc"), ("DimensionFieldName", "t")]))
                p.commands["W2"].result
                rec["again"] = read(p, "B_again", "out2.nc", names[0], [("DataType", "Integer")] if gs[0][1] == "i" else [])
            except BaseException as e:
                rec["obs"] = [["err", type(e).__name__, isinstance(e, MPilotError)] for _ in gs]
    finally:
        import shutil

        shutil.rmtree(wd, ignore_errors=True)
    return rec


def run_and_validate(chk, cases):
    """execute the cases on the real reader/writer and let TLC (NetcdfIOTrace) judge every observation -> (records, verdicts)"""
    jobs = list(enumerate(cases))
    with Pool(core.NCPU, initializer=_init) as pool:
        records = pool.map(run_case, jobs, chunksize=max(1, len(jobs) // (core.NCPU * 8)))
    chk.cov["evaluations"] += len(records)
    shards = min(core.NCPU, max(1, len(records) // 800))
    tdir = core.scratch_dir("mpv-nct-")
    tcfg = os.path.join(tdir, "t.cfg")
    with open(tcfg, "w") as f:
        f.write('CONSTANTS Mode = "read"\nINIT TInit\nNEXT TNext\nCHECK_DEADLOCK FALSE\nINVARIANT TReport\n')
    files = []
    for s in range(shards):
        path = os.path.join(tdir, "t%d.ndjson" % s)
        with open(path, "w") as f:
            for rec in records[s::shards]:
                f.write(json.dumps(rec) + "\n")
        files.append(path)
    results = [None] * shards

    def tw(i):
        results[i] = core.run_tlc("NetcdfIOTrace", tcfg, workers=1, env={"TRACE_FILE": files[i]}, timeout=1500)

    ths = [threading.Thread(target=tw, args=(i,)) for i in range(shards)]
    for t in ths:
        t.start()
    for t in ths:
        t.join()
    verdicts = {}
    tot = core.TLCResult()
    for tr in results:
        if tr.rc != 0 or tr.error:
            core.tlc_fail(tr, "NetcdfIOTrace")
        for v in core.parse_printt(tr.out, "VERDICT"):
            verdicts[v[1]] = v[2]
        tot.states += tr.states
        tot.distinct += tr.distinct
        tot.wall = max(tot.wall, tr.wall)
    chk.add_tlc("NetcdfIOTrace validation (%d shards)" % shards, tot, "TRACE_FILE=<recorded reads/writes>")
    if len(verdicts) != len(records):
        sys.stderr.write("MACHINERY FAILURE: %d verdicts for %d records\n" % (len(verdicts), len(records)))
        sys.exit(2)
    chk.cov["traces_validated_against_impl"] += len(records)
    return records, verdicts


def check_C18(tier):
    chk = core.Check("C18", tier)
    core.sut()
    res = {}

    def work(m):
        res[m] = gen_cases(m)

    ths = [threading.Thread(target=work, args=(m,)) for m in ("read", "write")]
    for t in ths:
        t.start()
    for t in ths:
        t.join()
    cases = []
    for m in ("read", "write"):
        r, cs = res[m]
        chk.add_tlc("NetcdfIO %s cases" % m, r, 'Mode="%s" invariants ShapeKept, DefaultIsFloat, MissingMasked, FuzzyInRange, PositiveChecked, RoundTripUnionMask' % m)
        step = (4 if m == "read" else 8) if tier == "quick" else 1
        cases += [c for i, c in enumerate(cs) if i % step == core.SEED % step]
    chk.cov["model_cases"] = sum(len(res[m][1]) for m in res)
    chk.cov["distinct_nontrivial"] += len([c for c in cases if any(cell[1] == 0 for g in c["grids"] for cell in g[2]) or c["dt"] or c["mv"]])
    records, verdicts = run_and_validate(chk, cases)
    for rec in records:
        v = verdicts[rec["id"]]
        if v != "ok" and v.startswith("C18"):
            what = rec["dt"] or ("MissingValue" if rec["mv"] else "default") if rec["mode"] == "read" else "write"
            chk.finding("C18:netcdf:%s:%s" % (v, what), "NetCDF %s: %s" % (rec["mode"], v),
                        {"mode": rec["mode"], "grids": rec["grids"], "MissingValue": rec["mv"], "DataType": rec["dt"], "observed": rec["obs"], "dimsok": rec["dimsok"]})
        elif len(chk.cov["samples"]) < 3 and rec["id"] % 577 == 3:
            chk.sample({"mode": rec["mode"], "grids": rec["grids"], "MissingValue": rec["mv"], "DataType": rec["dt"], "observed": rec["obs"]})
    chk.cov["rule"] = ("TLC enumerates grids (shapes 3, 2x2, 1x3; float and integer; every placement of missing cells; values negative, fractional, within and beyond the fuzzy padding) with every "
                       "DataType and MissingValue choice for reading, and every pair of results (both kinds, every placement of missing cells) for writing, checking ShapeKept, DefaultIsFloat, MissingMasked, "
                       "FuzzyInRange, PositiveChecked, RoundTripUnionMask on the definitions; datasets are created with netCDF4 (coordinate variables, optional CRS variable), read by the real EEMSRead, "
                       "result sets written by the real EEMSWrite on a template and read back, dimension variables/coordinates compared with the template; TLC validates every observation. "
                       "non-trivial = case with a missing cell or an optional read parameter")
    chk.cov["exhaustive"] = tier != "quick"
    chk.assumptions += ["MissingValue is not combined with the Positive*/Fuzzy checks (their order is not documented)", "rounding ties (x.5) are not generated for Integer reads"]
    return chk.finish()


def missing_data_part(chk, prop, tier):
    """C03 for the NetCDF reader: cells missing in the file (its own fill value) and cells equal to MissingValue are missing in the result, the others present"""
    core.sut()
    r, cs = gen_cases("read")
    chk.add_tlc("NetcdfIO read cases (missing cells)", r, 'Mode="read": MissingMasked')
    cases = [c for c in cs if any(cell[1] == 0 for cell in c["grids"][0][2]) and c["dt"] in ("", "Float", "Integer")]
    step = 5 if tier == "quick" else 1
    cases = [c for i, c in enumerate(cases) if i % step == core.SEED % step]
    # ... and the writer: every written variable is missing where any result written with it is missing, and the results themselves are left as they were
    rw, cw = gen_cases("write")
    chk.add_tlc("NetcdfIO write cases (missing cells)", rw, 'Mode="write": RoundTripUnionMask')
    cw = [c for c in cw if any(cell[1] == 0 for g in c["grids"] for cell in g[2])]
    stepw = 12 if tier == "quick" else 1
    cases += [c for i, c in enumerate(cw) if i % stepw == core.SEED % stepw]
    records, verdicts = run_and_validate(chk, cases)
    chk.cov["distinct_nontrivial"] += len(cases)
    for rec in records:
        v = verdicts[rec["id"]]
        if rec["mode"] == "write":
            if v in ("C18.Mask", "C18.WriteAgain"):
                chk.finding("%s:netcdf-write:%s" % (prop, v.split(".")[1]),
                            "NetCDF EEMSWrite: %s (missing exactly where a result written together is missing; a result written again alone is unchanged)" % v,
                            {"grids": rec["grids"], "observed": rec["obs"], "written_again": rec["again"]})
            continue
        if v in ("C18.Mask", "C18.Value"):
            chk.finding("%s:netcdf-read:%s:%s" % (prop, v.split(".")[1], "MissingValue" if rec["mv"] else "file-mask"),
                        "NetCDF EEMSRead: %s (a cell missing in the file or equal to MissingValue must be missing, any other present with its value)" % v,
                        {"grid": rec["grids"][0], "MissingValue": rec["mv"], "DataType": rec["dt"], "observed": rec["obs"]})
