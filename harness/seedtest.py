"""Evaluate seeded mutants: /venv/bin/python -m harness.seedtest <seedout dir> <ID> [k ...]
For each patch: apply to a scratch copy of /repo's HEAD, confirm the test-suite passes, confirm the demo fails with it and passes
without it, run the property's quick check against the mutated tree, and store everything under /verif/seeded/<ID>-<k>/."""
import json
import os
import shutil
import subprocess
import sys
import time

VERIF = os.path.dirname(os.path.dirname(os.path.abspath(__file__)))


def sh(cmd, cwd=None, env=None, timeout=3000):
    e = dict(os.environ)
    e.update(env or {})
    p = subprocess.run(cmd, shell=True, cwd=cwd, env=e, stdout=subprocess.PIPE, stderr=subprocess.STDOUT, timeout=timeout)
    return p.returncode, p.stdout.decode("utf-8", "replace")


def main():
    src, pid = sys.argv[1], sys.argv[2]
    ks = sys.argv[3:] or ["1", "2"]
    checks = os.environ.get("SEED_CHECKS", pid).split(",")
    for k in ks:
        patch = os.path.join(src, pid, "patch%s.diff" % k)
        demo = os.path.join(src, pid, "demo%s.py" % k)
        note = os.path.join(src, pid, "note%s.md" % k)
        if not os.path.exists(patch):
            print("%s-%s: no patch" % (pid, k))
            continue
        tree = "/tmp/seedtree-%s-%s" % (pid, k)
        shutil.rmtree(tree, ignore_errors=True)
        sh("git -C /repo worktree prune; git -C /repo worktree add -f --detach %s HEAD" % tree)
        meta = {"property": pid, "mutant": k, "repo_head": sh("git -C /repo rev-parse --short HEAD")[1].strip()}
        rc, out = sh("/venv/bin/python %s" % demo, cwd=tree, env={"PYTHONPATH": tree})
        meta["demo_on_clean_tree"] = {"exit": rc, "tail": out[-300:]}
        rc, out = sh("git apply %s" % patch, cwd=tree)
        meta["applies"] = rc == 0
        if rc != 0:
            print("%s-%s: patch does not apply: %s" % (pid, k, out[-200:]))
        else:
            rc, out = sh("/venv/bin/python -m pytest -q -p no:cacheprovider 2>&1 | tail -3", cwd=tree)
            meta["tests"] = out.strip().split("\n")[-1]
            rc, out = sh("/venv/bin/python %s" % demo, cwd=tree, env={"PYTHONPATH": tree})
            meta["demo_on_mutated_tree"] = {"exit": rc, "tail": out[-300:]}
            meta["checks"] = {}
            for c in checks:
                t0 = time.time()
                rc, out = sh("./check %s --tier quick" % c, cwd=VERIF, env={"VERIF_SUT": tree})
                sigs = [l.strip() for l in out.split("\n") if l.strip().startswith("signature:")]
                meta["checks"][c] = {"exit": rc, "signatures": sigs[:12], "wall_s": round(time.time() - t0, 1), "tail": out[-400:] if rc not in (0, 1) else ""}
        sh("git -C /repo worktree remove --force %s" % tree)
        dst = os.path.join(VERIF, "seeded", "%s-%s" % (pid, int(k) + int(os.environ.get("SEED_BASE", "0"))))
        if os.environ.get("SEED_ROUND"):
            meta["round"] = int(os.environ["SEED_ROUND"])
        os.makedirs(dst, exist_ok=True)
        shutil.copy(patch, os.path.join(dst, "patch.diff"))
        if os.path.exists(demo):
            shutil.copy(demo, os.path.join(dst, "demo.py"))
        if os.path.exists(note):
            meta["needs"] = open(note).read()
        meta["ran"] = "harness.seedtest: git apply on a scratch worktree of /repo HEAD; pytest; demo on clean and mutated tree; VERIF_SUT=<tree> ./check <id> --tier quick"
        with open(os.path.join(dst, "meta.json"), "w") as f:
            json.dump(meta, f, indent=1)
        det = {c: v["exit"] for c, v in meta.get("checks", {}).items()}
        print("%s-%s: tests=%s demo clean/mut=%s/%s checks=%s %s" % (pid, k, meta.get("tests"), meta["demo_on_clean_tree"]["exit"],
              meta.get("demo_on_mutated_tree", {}).get("exit"), det, [s for v in meta.get("checks", {}).values() for s in v["signatures"]][:4]))


if __name__ == "__main__":
    main()
