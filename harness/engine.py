"""C01 / C14: run engine.  MPRun.tla (TLC) -> replay on the SUT -> MPRunAbsTrace.tla (TLC)."""
from __future__ import print_function

import json
import os
import random
import re
import sys
import threading
import time
from collections import defaultdict
from multiprocessing import Pool

from . import core

NAME_POOLS = [["Q", "C", "X", "A", "M"], ["A", "B", "C", "D", "E"], ["E", "D", "C", "B", "A"], ["r9", "_r", "R2", "rr", "R_1"]]


def names_for(n, variant):
    return NAME_POOLS[variant % len(NAME_POOLS)][:n]


def render(n, direct, listed, fails, names, variant=0, ignored=None, nulls=()):
    """Command file for the abstract program; textual order = numeric order."""
    lines = []
    for c in range(1, n + 1):
        args = []
        ds = sorted(direct.get(c, []))
        if variant % 2:
            ds = ds[::-1]
        for i, d in enumerate(ds):
            args.append("D%d = %s" % (i + 1, names[d - 1]))
        ls = sorted(listed.get(c, []))
        if ls:
            mode = (variant + c) % 4
            nm = [names[d - 1] for d in ls]
            if mode == 0:
                args.append("L = [%s]" % ", ".join(nm))
            elif mode == 1:
                args.append("NL = [%s]" % ", ".join("[%s]" % x for x in nm))
            elif mode == 2 and len(nm) >= 2:
                args.append("L = [%s]" % nm[0])
                args.append("NL = [[%s]]" % ", ".join(nm[1:]))
            elif mode == 3:
                args.append("NNL = [[[%s]], [[%s]]]" % (nm[0], ", ".join(nm[1:])) if len(nm) > 1 else "NNL = [[[%s]]]" % nm[0])
            else:
                args.append("NL = [[%s]]" % ", ".join(nm))
        if c in fails:
            args.append("Fail = %s" % ("mpilot" if (variant + c) % 2 else "raw"))
        if ignored and ignored.get(c):
            args.append("Ignore = [%s]" % ", ".join(names[d - 1] for d in sorted(ignored[c])))
        if c in nulls:
            args.append("Null = yes")
        if variant % 3 == 2:
            lines.append("%s = Probe(\n    %s\n)" % (names[c - 1], ",\n    ".join(args)))
        else:
            lines.append("%s = Probe(%s)" % (names[c - 1], ", ".join(args)))
    return "\n".join(lines)


def split_commands(src):
    """the rendered source as one block of text per command (a command starts at a line 'Name = Probe(')"""
    blocks = []
    for line in src.split("\n"):
        if " = Probe(" in line and not line.startswith(" "):
            blocks.append(line)
        else:
            blocks[-1] += "\n" + line
    return blocks


def unfold(c, deps, names, memo, nulls=()):
    if c not in memo:
        memo[c] = None if c in nulls else (names[c - 1], tuple((names[d - 1], unfold(d, deps, names, memo, nulls)) for d in deps[c]))
    return memo[c]


def _dep_order(n, direct, listed, variant):
    """the order in which Probe reads its inputs (as rendered)"""
    out = {}
    for c in range(1, n + 1):
        ds = sorted(direct.get(c, []))
        if variant % 2:
            ds = ds[::-1]
        out[c] = ds + sorted(listed.get(c, []))
    return out


_W = {}


def _worker_init():
    core.sut()
    sys.setrecursionlimit(400)
    from . import tracer

    _W["tracer"] = tracer


def replay_one(job):
    """job = (jid, n, direct, listed, fails, hist, variant) -> dict(trace record, projection)"""
    jid, n, direct, listed, fails, hist, variant, ignored, nulls, late = job
    tracer = _W["tracer"]
    from mpilot.program import Program

    names = names_for(n, variant)
    full = render(n, direct, listed, fails, names, variant, ignored, nulls)
    src = full
    late_src = None
    if late:
        # the late commands are not in the program at first: they are added through add_command after the first call
        blocks = split_commands(full)
        src = "\n".join(b for c, b in zip(range(1, n + 1), blocks) if c not in late)
        late_src = "\n".join(b for c, b in zip(range(1, n + 1), blocks) if c in late)
    tracer.reset()
    EV = tracer.EV
    res = {"id": jid, "src": src, "hist": hist, "load_error": None}
    try:
        p = Program.from_source(src, libraries=("vprobe",))
    except BaseException as e:  # loading a probe program must always work
        res["load_error"] = "%s: %s" % (type(e).__name__, e)
        return res
    if not late and jid % 5 in (3, 4):
        try:
            p = api_built(p, Program, twin=(jid % 5 == 4))
        except BaseException as e:  # assembling the same program through the API must work as well
            res["load_error"] = "(API-built) %s: %s" % (type(e).__name__, e)
            return res
        res["api_built"] = True
        if jid % 5 == 4:
            tracer.reset()
            EV = tracer.EV
    cmds = p.commands
    if not late and jid % 5 == 1 and all(h[0] == "result" for h in hist):
        # the caller keeps the commands (or just their dictionary) and lets go of the Program object itself before reading results
        # (no forced garbage collection: a full collection in a forked worker walks the whole inherited heap - seconds per replay; where the Program is only
        #  weakly referenced, dropping the last reference frees it at once)
        p = None
        res["program_dropped"] = True
    tracer.install()
    outcomes = []
    for call in hist:
        if call[0] == "add":
            from collections import OrderedDict
            try:
                tmp = Program.from_source(late_src, libraries=("vprobe",))
                for nm, cmd in tmp.commands.items():
                    p.add_command(type(cmd), nm, OrderedDict((a.name, a) for a in cmd.arguments), cmd.lineno)
            except BaseException as e:  # (the commands added later may refer to each other in any order)
                res["load_error"] = "(add_command after a run) %s: %s" % (type(e).__name__, e)
                return res
            tracer.install()
            EV.append({"ev": "add"})
            outcomes.append(("ok", "", ""))
        elif call[0] == "run":
            EV.append({"ev": "call_run"})
            try:
                p.run()
                EV.append({"ev": "ret_run", "ok": True, "cls": "", "cause": ""})
                outcomes.append(("ok", "", ""))
            except BaseException as e:
                cls, is_mp, _, cause = tracer.classify(e)
                EV.append({"ev": "ret_run", "ok": False, "cls": cls, "cause": cause, "mp": is_mp})
                outcomes.append(("raised", cls, cause))
                del tracer.STACK[:]
        else:
            cname = names[call[1] - 1]
            EV.append({"ev": "call_result", "c": cname})
            try:
                cmd = cmds[cname]
                v = _plain_result(cmd)
                EV.append({"ev": "ret_result", "c": cname, "ok": True, "tok": tracer.tok(v), "cls": "", "cause": ""})
                outcomes.append(("ok", "", ""))
            except BaseException as e:
                cls, is_mp, _, cause = tracer.classify(e)
                EV.append({"ev": "ret_result", "c": cname, "ok": False, "tok": "", "cls": cls, "cause": cause, "mp": is_mp})
                outcomes.append(("raised", cls, cause))
                del tracer.STACK[:]
    nexec = [0] * n
    ndone = [0] * n
    idx = {nm: i for i, nm in enumerate(names)}
    for e in EV:
        if e["ev"] == "exec_begin" and e["c"] in idx:
            nexec[idx[e["c"]]] += 1
        elif e["ev"] == "exec_end" and e["c"] in idx:
            ndone[idx[e["c"]]] += 1
    deps = _dep_order(n, direct, listed, variant)
    rdeps = {c: [d for d in deps[c] if d not in ignored.get(c, ())] for c in deps}
    memo = {}
    bad_values = []
    finished = []
    for c in range(1, n + 1):
        cmd = cmds.get(names[c - 1])
        fin = bool(getattr(cmd, "is_finished", False))
        finished.append(fin)
        if fin:
            try:
                exp = unfold(c, rdeps, names, memo, nulls)
            except RecursionError:
                continue
            if cmd._result != exp:
                bad_values.append((names[c - 1], repr(cmd._result)[:300], repr(exp)[:300]))
    res.update({"outcomes": outcomes, "nexec": nexec, "ndone": ndone, "finished": finished, "bad_values": bad_values,
                "trace": {"id": jid, "strict": True,
                          "deps": {names[c - 1]: [names[d - 1] for d in deps[c]] for c in range(1, n + 1)},
                          "fails": [names[c - 1] for c in sorted(fails)], "late": [names[c - 1] for c in sorted(late)],
                          "ignored": {names[c - 1]: [names[d - 1] for d in sorted(ignored.get(c, ()))] for c in range(1, n + 1)}, "ev": list(EV)}})
    return res


def api_built(loaded, Program, twin=False):
    """the same program assembled through the API (Program.add_command with plain values, not parser arguments), in the same order.
    twin=False: a reference to a command that is already in the program is given as the Command OBJECT, a forward reference as its result name.
    twin=True: every reference is a result name, and the very same argument values (the same list objects) were first given to a second
    Program, which has already run: what that program did with them is none of this program's business"""
    from collections import OrderedDict

    def plain(v):
        if type(v).__name__ in ("Argument", "ListArgument"):
            v = v.value
        if isinstance(v, list):
            return [plain(x) for x in v]
        return v

    def objects(v, p):
        if isinstance(v, list):
            return [objects(x, p) for x in v]
        if isinstance(v, str) and v in p.commands:
            return p.commands[v]
        return v

    raw = [(nm, type(cmd), cmd.lineno, [(a.name, plain(a)) for a in cmd.arguments]) for nm, cmd in loaded.commands.items()]
    if twin:
        other = Program(libraries=("vprobe",))
        for nm, cls, lineno, args in raw:
            other.add_command(cls, nm, OrderedDict(args), lineno)
        try:
            other.run()
        except BaseException:
            pass
    p = Program(libraries=("vprobe",))
    for nm, cls, lineno, args in raw:
        if twin:
            p.add_command(cls, nm, OrderedDict(args), lineno)
        else:
            # (no line numbers: programs assembled through the API usually have none)
            p.add_command(cls, nm, OrderedDict((k, objects(v, p) if k[0] in "DLN" and k != "Null" else v) for k, v in args))
    return p


def _plain_result(cmd):
    """top-level `command.result` access by the API user (logged as call_result/ret_result, not as a read)"""
    tracer = _W["tracer"]
    n = len(tracer.EV)
    v = cmd.result
    # drop the vread event generated by this top-level access itself (the last one)
    for i in range(len(tracer.EV) - 1, n - 1, -1):
        e = tracer.EV[i]
        if e["ev"] == "vread" and e["d"] == cmd.result_name:
            del tracer.EV[i]
            break
    return v


def replay_many(jobs):
    if not jobs:
        return []
    with Pool(core.NCPU, initializer=_worker_init) as pool:
        return pool.map(replay_one, jobs, chunksize=max(1, len(jobs) // (core.NCPU * 8)))


# ----------------------------------------------------------------------------------------------


def write_cfg(path, consts, invariants=(), properties=(), spec=None, constraint=None):
    with open(path, "w") as f:
        f.write("CONSTANTS " + " ".join("%s = %s" % kv for kv in consts.items()) + "\n")
        if spec:
            f.write("SPECIFICATION %s\n" % spec)
        else:
            f.write("INIT Init\nNEXT Next\n")
        f.write("CHECK_DEADLOCK FALSE\n")
        for i in invariants:
            f.write("INVARIANT %s\n" % i)
        for p in properties:
            f.write("PROPERTY %s\n" % p)
        if constraint:
            f.write("CONSTRAINT %s\n" % constraint)


MPRUN_INVS = ["ExactlyOnce", "RunCompletes", "TermCorrect", "CyclicRejected", "AcyclicAccepted",
              "NoSpuriousRecursive", "StackBounded", "FailureReported", "NoRunningWhenIdle"]
MPRUN_PROPS = ["NoReexec", "Quiescent", "FinishedStays", "RefinesAbs"]


def mprun_consts(N, calls, fail=0, dags=False, cyclic=False, memo=True, guard=True, reset=True, sweep=True, leaf="mixed", special=None, memokey="flag", maxedges=None):
    b = lambda x: "TRUE" if x else "FALSE"
    return {"N": N, "Memo": b(memo), "CycleGuard": b(guard), "ResetOnUnwind": b(reset), "Sweep": b(sweep),
            "LeafKey": '"%s"' % leaf, "MaxStack": N + 2, "MaxCalls": calls, "MaxFail": fail, "MaxSpecial": fail if special is None else special,
            "MemoKey": '"%s"' % memokey,
            "OnlyDags": b(dags), "OnlyCyclic": b(cyclic), "MaxEdges": N * N if maxedges is None else maxedges}


def run_mprun(tag, consts, report=True, workers=None, timeout=1500, liveness=False):
    d = core.scratch_dir("mpv-cfg-")
    cfg = os.path.join(d, tag + ".cfg")
    invs = list(MPRUN_INVS) + (["Report"] if report else [])
    if liveness:
        write_cfg(cfg, consts, invs, MPRUN_PROPS + ["Terminates"], spec="Spec")
    else:
        write_cfg(cfg, consts, invs, MPRUN_PROPS)
    return core.run_tlc("MPRun", cfg, workers=workers, timeout=timeout)


def parse_terms(out):
    """TERM tuples -> {(direct, listed, fails, hist): set of (pstate, err, nexec, ndone)}"""
    groups = defaultdict(set)
    n = 0
    for t in core.parse_printt(out, "TERM"):
        _, direct, listed, fails, ignored, nulls, late, hist, pstate, err, nexec, ndone = t
        n += 1
        key = (core.freeze(_fn(direct)), core.freeze(_fn(listed)), tuple(sorted(fails)), core.freeze(hist), core.freeze(_fn(ignored)), tuple(sorted(nulls)),
               tuple(sorted(late)))
        groups[key].add((pstate, err, tuple(_fnseq(nexec)), tuple(_fnseq(ndone))))
    return groups, n


def _fn(f):
    """TLC prints functions over 1..N as sequences <<{..}, {..}>>"""
    if isinstance(f, dict):
        return [sorted(f[k]) for k in sorted(f)]
    return [sorted(x) for x in f]


def _fnseq(f):
    if isinstance(f, dict):
        return [f[k] for k in sorted(f)]
    return list(f)


def jobs_from_groups(groups, variants):
    jobs = []
    keys = []
    for key in sorted(groups):
        direct, listed, fails, hist, ignored, nulls, late = key
        n = len(direct)
        for v in variants:
            jobs.append((len(jobs), n, {c + 1: list(direct[c]) for c in range(n)}, {c + 1: list(listed[c]) for c in range(n)},
                         set(fails), [tuple(h) for h in hist], v, {c + 1: list(ignored[c]) for c in range(n)}, set(nulls), set(late)))
            keys.append(key)
    return jobs, keys


ERRMAP = {"RecursiveModelStructure": lambda cls, cause: cls == "RecursiveModelStructure",
          "ExecError": lambda cls, cause: cls == "ProbeFailure" or (cls == "UnexpectedError" and cause == "ZeroDivisionError"),
          "StackOverflow": lambda cls, cause: cause == "RecursionError" or cls == "RecursionError"}


def compare_replay(chk, prop, key, expected, res, strict_counts):
    """spec -> code: the projected final state of the implementation must be one the model reaches."""
    if res.get("load_error"):
        chk.finding("%s:engine:Replay.LoadError" % prop, "probe program failed to load: %s" % res["load_error"],
                    {"source": res["src"]})
        return
    # the model's terminal state describes the last run()/result() call; an add_command after it changes nothing about that outcome
    calls = [o for o, h in zip(res["outcomes"], res["hist"]) if h[0] != "add"]
    last = calls[-1] if calls else res["outcomes"][-1]
    ok_states = set()
    for (pstate, err, nexec, ndone) in expected:
        if pstate == "returned":
            m = last[0] == "ok"
        else:
            m = last[0] == "raised" and ERRMAP.get(err, lambda a, b: False)(last[1], last[2])
        if m and (not strict_counts or (list(nexec) == res["nexec"] and list(ndone) == res["ndone"])):
            ok_states.add((pstate, err))
    if not ok_states:
        exp = sorted(expected)[0]
        what = "Outcome" if not any((e[0] == "returned") == (last[0] == "ok") and
                                    (e[0] == "returned" or ERRMAP.get(e[1], lambda a, b: False)(last[1], last[2]))
                                    for e in expected) else "ExecutionCounts"
        chk.finding("%s:engine:Replay.%s" % (prop, what),
                    "implementation's final state is not reachable in MPRun: model %s, code outcome=%s nexec=%s ndone=%s"
                    % (exp, last, res["nexec"], res["ndone"]),
                    {"source": res["src"], "history": res["hist"], "model": [list(e) for e in sorted(expected)][:4],
                     "observed": {"outcomes": res["outcomes"], "nexec": res["nexec"], "ndone": res["ndone"]}})
    if res["bad_values"]:
        chk.finding("%s:engine:Replay.TermMismatch" % prop,
                    "result of %s is not the evaluation of its dependency graph" % res["bad_values"][0][0],
                    {"source": res["src"], "history": res["hist"], "bad": res["bad_values"][:3]})


def validate_traces(chk, prop, records, module="MPRunAbsTrace", shards=None, label="engine"):
    """code -> spec: one TLC process per shard; returns {trace id: (verdict, position)}"""
    if not records:
        return {}
    shards = shards or min(core.NCPU, max(1, len(records) // 1500))
    d = core.scratch_dir("mpv-tr-")
    cfg = os.path.join(d, "trace.cfg")
    with open(cfg, "w") as f:
        f.write("INIT Init\nNEXT Next\nCHECK_DEADLOCK FALSE\nINVARIANT Report\n")
    files = []
    for s in range(shards):
        part = records[s::shards]
        if not part:
            continue
        path = os.path.join(d, "tr%d.ndjson" % s)
        with open(path, "w") as f:
            for r in part:
                f.write(json.dumps(r) + "\n")
        files.append(path)
    results = [None] * len(files)

    def work(i):
        results[i] = core.run_tlc(module, cfg, workers=1, env={"TRACE_FILE": files[i]}, timeout=1800)

    ths = [threading.Thread(target=work, args=(i,)) for i in range(len(files))]
    for t in ths:
        t.start()
    for t in ths:
        t.join()
    verdicts = {}
    tot = core.TLCResult()
    for r in results:
        if r.rc != 0 or r.error:
            core.tlc_fail(r, "trace validation (%s)" % module)
        for v in core.parse_printt(r.out, "VERDICT"):
            verdicts[v[1]] = (v[2], v[3])
        tot.states += r.states
        tot.distinct += r.distinct
        tot.depth = max(tot.depth, r.depth)
        tot.wall = max(tot.wall, r.wall)
    chk.add_tlc("%s trace validation (%d shards)" % (module, len(files)), tot, "TRACE_FILE=<recorded ndjson>")
    if len(verdicts) != len(records):
        sys.stderr.write("MACHINERY FAILURE: %d verdicts for %d traces\n" % (len(verdicts), len(records)))
        sys.exit(2)
    chk.cov["traces_validated_against_impl"] += len(verdicts)
    return verdicts


def decide(chk, prop, tlc_jobs, variants, strict_counts=True, sample_filter=None, max_replays=None):
    """Run the TLC jobs in parallel, then replay + trace-validate every terminal state they report."""
    results = {}

    def work(tag, consts, kw):
        results[tag] = run_mprun(tag, consts, **kw)

    ths = [threading.Thread(target=work, args=j) for j in tlc_jobs]
    for t in ths:
        t.start()
    for t in ths:
        t.join()
    groups = {}
    for tag, consts, kw in tlc_jobs:
        r = results[tag]
        cs = " ".join("%s=%s" % kv for kv in consts.items())
        if r.error or (r.rc != 0 and not r.violated):
            core.tlc_fail(r, "MPRun " + tag)
        chk.add_tlc("MPRun " + tag, r, cs)
        if r.violated:
            # the intended design itself violates the property: a modelling error, never a code finding
            sys.stderr.write("MACHINERY FAILURE: MPRun(%s) violates %s under the intended switches\n%s\n" % (tag, r.violated, r.out[-2000:]))
            sys.exit(2)
        g, n = parse_terms(r.out)
        for k, v in g.items():
            groups.setdefault(k, set()).update(v)
    chk.cov["model_terminal_cases"] = len(groups)
    if max_replays and len(groups) * len(variants) > max_replays:
        # TLC explored and checked all of them; the implementation is driven through a seed-dependent sample
        step = (len(groups) * len(variants) + max_replays - 1) // max_replays
        allkeys = sorted(groups)
        picked = {k for i, k in enumerate(allkeys) if (i + core.SEED) % step == 0}
        groups = {k: v for k, v in groups.items() if k in picked}
        chk.cov["replay_sampling"] = "1 of %d terminal cases (seed-dependent)" % step
    jobs, keys = jobs_from_groups(groups, variants)
    t0 = time.time()
    res = replay_many(jobs)
    chk.cov["evaluations"] += len(res)
    chk.cov["replay_wall_s"] = round(time.time() - t0, 1)
    nontrivial = set()
    records = []
    best = []
    for job, key, r in zip(jobs, keys, res):
        # execution counts are schedule-independent only when nothing fails (with a failing command, which commands had begun
        # before the failure depends on the order of the leaf loop, which the property leaves free)
        compare_replay(chk, prop, key, groups[key], r, strict_counts and not key[2])
        if r.get("trace"):
            records.append(r["trace"])
        direct, listed, fails, hist, ignored, nulls, late = key
        indeg = defaultdict(int)
        for c in range(len(direct)):
            for d in direct[c] + listed[c]:
                indeg[d] += 1
        if any(v >= 2 for v in indeg.values()) or any(listed) or len(hist) > 1 or any(ignored) or nulls or late:
            nontrivial.add(key)
        if key in nontrivial and len(hist) >= 1:
            score = len((r.get("trace") or {}).get("ev", [])) + 5 * sum(len(x) for x in listed) + 3 * len(fails) + 3 * len(late) + 3 * sum(len(x) for x in ignored)
            best.append((score, job[0], {"source": r.get("src"), "history": r.get("hist"), "model_terminal_states": [list(e) for e in sorted(groups[key])][:2],
                                         "observed": {"outcomes": r.get("outcomes"), "nexec": r.get("nexec")},
                                         "trace_events": (r.get("trace") or {}).get("ev", [])[:60]}))
            if len(best) > 200:
                best.sort(key=lambda x: (-x[0], x[1]))
                del best[4:]
    best.sort(key=lambda x: (-x[0], x[1]))
    for _, _, smp in best[:3]:
        chk.sample(smp)
    chk.cov["distinct_nontrivial"] += len(nontrivial)
    verdicts = validate_traces(chk, prop, records)
    by_id = {r["id"]: r for r in res}
    for tid, (verdict, pos) in sorted(verdicts.items()):
        if verdict != "ok":
            r = by_id[tid]
            chk.finding("%s:engine:%s" % (prop, verdict),
                        "trace rejected by MPRunAbsTrace at event %d with clause %s" % (pos - 1, verdict),
                        {"source": r["src"], "history": r["hist"], "events": r["trace"]["ev"][:max(0, pos)][-30:]})
    return groups


def repo_test_traces(chk, prop):
    """code -> spec on the repository's own tests: every successful Program.run() they perform is traced and validated"""
    import shutil
    import subprocess

    snap = core.sut()
    tests = os.path.join(core.REPO, "tests")
    if not os.path.isdir(tests):
        return
    dst = os.path.join(snap, "tests")
    if not os.path.exists(dst):
        shutil.copytree(tests, dst, ignore=shutil.ignore_patterns("__pycache__", "*.pyc"))
    outp = os.path.join(core.scratch_dir("mpv-rt-"), "traces.ndjson")
    env = dict(os.environ)
    env["VERIF_TRACE_OUT"] = outp
    env["PYTHONPATH"] = snap + os.pathsep + core.VERIF
    p = subprocess.run([sys.executable, "-m", "harness.pytest_trace"], cwd=snap, env=env, stdout=subprocess.PIPE, stderr=subprocess.STDOUT, timeout=900)
    recs = []
    if os.path.exists(outp):
        with open(outp) as f:
            recs = [json.loads(l) for l in f if l.strip()]
    chk.cov["repo_test_runs_traced"] = len(recs)
    if not recs:
        chk.note("shape-drift: no Program.run() of the repository's tests could be traced (pytest exit %s)" % p.returncode)
        return
    tests_of = {r["id"]: r.pop("test") for r in recs}
    verdicts = validate_traces(chk, prop, recs, shards=1)
    for r in recs:
        v, pos = verdicts[r["id"]]
        if v != "ok":
            chk.finding("%s:repo-tests:%s" % (prop, v), "engine trace of the repository's own test %s rejected: %s" % (tests_of[r["id"]], v),
                        {"test": tests_of[r["id"]], "deps": r["deps"], "events": r["ev"][:pos][-25:]})


def tlaps_abs(chk):
    """the TLAPS proof (spec/MPRunAbsProof.tla) that MPRunAbs guarantees, for any number of commands and histories of any length, that a finished
    command has finished dependencies, the term of their current values as its value, and stays finished with it; checked afresh (no proof cache)"""
    import shutil
    import subprocess
    import time

    if not shutil.which("tlapm"):
        chk.note("tlapm not found: the unbounded proof of the abstract engine (MPRunAbsProof) was not re-checked")
        return
    d = core.scratch_dir("mpv-tlaps-")
    for fn in ("MPRunAbs.tla", "MPRunAbsProof.tla"):
        shutil.copy(os.path.join(core.VERIF, "spec", fn), d)
    t0 = time.time()
    try:
        p = subprocess.run(["tlapm", "--threads", "4", "--cleanfp", "MPRunAbsProof.tla"], cwd=d, stdout=subprocess.PIPE, stderr=subprocess.STDOUT, timeout=600)
        out = p.stdout.decode("utf-8", "replace")
    except subprocess.TimeoutExpired:
        out = "timeout"
    m = re.search(r"All (\d+) obligations? proved", out)
    if not m:
        sys.stderr.write("MACHINERY FAILURE: tlapm did not prove MPRunAbsProof\n%s\n" % out[-2000:])
        sys.exit(2)
    chk.cov["tlc_runs"].append({"run": "tlapm MPRunAbsProof (THEOREM Safety: ASpec => []Inv; THEOREM FinishedForever)", "distinct_states": 0, "states_generated": 0, "depth": 0,
                                "wall_s": round(time.time() - t0, 1), "constants": "none: Cmds is an arbitrary set (unbounded proof); %s proof obligations, all proved" % m.group(1), "coverage": None})
    shutil.rmtree(d, ignore_errors=True)


def check_C01(tier):
    chk = core.Check("C01", tier)
    core.sut()
    if tier == "quick":
        jobs = [("n3_dags_calls3_special1", mprun_consts(3, 3, fail=1, special=1, dags=True), {"workers": 6}),
                ("n4_dags_calls1", mprun_consts(4, 1, fail=0, special=0, dags=True), {"workers": 10})]
        variants = [core.SEED % 12]
    else:
        jobs = [("n3_dags_calls3_special2", mprun_consts(3, 3, fail=1, special=2, dags=True), {"workers": 4}),
                ("n4_dags_calls2_special1", mprun_consts(4, 2, fail=1, special=1, dags=True), {"workers": 12}),
                ("n3_live", mprun_consts(3, 2, fail=1, special=1, dags=True), {"workers": 2, "liveness": True, "report": False})]
        variants = [(core.SEED + i) % 12 for i in (0, 1, 2, 5)]
    chk.cov["rule"] = ("TLC enumerates every acyclic program on N commands (every edge absent/direct/listed, optional failing command) "
                       "and every history of run()/result(c) calls; each terminal state is replayed on the real engine with probe commands "
                       "(spec->code: outcome, execution counts, Herbrand values) and the recorded event trace is validated by TLC against "
                       "MPRunAbsTrace (code->spec); random five-command acyclic programs are replayed and validated the same way. non-trivial = program has a shared dependency, a list reference, or a history longer than one call")
    chk.cov["exhaustive"] = True
    chk.assumptions += ["Probe commands read every referenced result and return the term of what they read",
                        "the tracer wraps Command.result, Command.validate_params and every registered execute()"]
    decide(chk, "C01", jobs, variants, max_replays=70000 if tier == "quick" else 600000)
    repo_test_traces(chk, "C01")
    from . import engine_big

    engine_big.check(chk, "C01", tier, cyclic=False)
    tlaps_abs(chk)
    return chk.finish()


def cycle_scenarios(chk):
    """cycles reached from a command WITHOUT a result name (an EEMS 2.0 style PrintVars line; add_command(cls, None, ...)): scenario texts rather than
    states of the engine model (the tracer identifies commands by result name), judged directly: the run ends in the recursive-model error"""
    from collections import OrderedDict
    from mpilot.program import Program

    def api():
        p = Program()
        p.add_command(p.find_command_class("Copy"), "A", OrderedDict([("InFieldName", "B")]))
        p.add_command(p.find_command_class("Copy"), "B", OrderedDict([("InFieldName", "A")]))
        p.add_command(p.find_command_class("PrintVars"), None, OrderedDict([("InFieldNames", ["A"])]))
        return p

    scenarios = [
        ("nameless-reader-eems2-style", lambda: Program.from_source("A = Copy(InFieldName = B)\nB = Copy(InFieldName = A)\nPrintVars(InFieldNames = [A])\n")),
        ("nameless-reader-first", lambda: Program.from_source("PrintVars(InFieldNames = [A, B])\nA = Copy(InFieldName = B)\nB = Copy(InFieldName = A)\n")),
        ("nameless-reader-api", api),
        ("nameless-self-loop-free-reader-of-3-cycle", lambda: Program.from_source(
            "A = Copy(InFieldName = B)\nB = Copy(InFieldName = C)\nC = Copy(InFieldName = A)\nPrintVars(InFieldNames = [C], OutFileName = shown.txt)\n", working_dir=core.scratch_dir("mpv-cyc-"))),
    ]
    for name, build in scenarios:
        chk.cov["evaluations"] += 1
        try:
            p = build()
        except BaseException as e:
            chk.finding("C14:scenario:LoadError:%s" % name, "the cyclic program could not be built: %s: %s" % (type(e).__name__, e), {"scenario": name})
            continue
        for call in (1, 2):
            try:
                p.run()
                verdict, detail = "C14.ReturnedOk", "run() returned"
            except BaseException as e:
                cls = type(e).__name__
                cause = type(getattr(e, "exc", None)).__name__ if getattr(e, "exc", None) is not None else ""
                verdict = "ok" if cls == "RecursiveModelStructure" else "C14.StackOverflow" if "RecursionError" in (cls, cause) else "C14.WrongError"
                detail = "%s%s: %s" % (cls, "(%s)" % cause if cause else "", str(e)[:200])
            if verdict != "ok":
                chk.finding("C14:scenario:%s:%s" % (verdict, name), "cycle read by a command without a result name, run() call %d: %s" % (call, detail), {"scenario": name, "call": call})
                break


def check_C14(tier):
    chk = core.Check("C14", tier)
    core.sut()
    if tier == "quick":
        jobs = [("n3_cyclic_calls1", mprun_consts(3, 1, cyclic=True), {"workers": 14}),
                ("n2_cyclic_calls3", mprun_consts(2, 3, cyclic=True), {"workers": 2})]
        variants = [core.SEED % 12]
    else:
        jobs = [("n3_cyclic_calls2", mprun_consts(3, 2, cyclic=True), {"workers": 8}),
                ("n4_cyclic_calls1_edges5", mprun_consts(4, 1, cyclic=True, maxedges=5), {"workers": 8})]
        variants = [(core.SEED + i) % 12 for i in (0, 1)]
    chk.cov["rule"] = ("TLC enumerates every program on N commands whose reference graph has a cycle (self-loops, 2-cycles, longer, tails, "
                       "separate acyclic parts; every edge direct or listed) and every history of run()/result(c); each terminal state is "
                       "replayed on the real engine (recursion limit lowered to 400) and its trace validated against MPRunAbsTrace; random five-command cyclic programs "
                       "(the bound the property states) are replayed and validated the same way (the trace specification takes the program from the trace). "
                       "non-trivial = all (every program is cyclic); distinct by (program, history)")
    chk.cov["exhaustive"] = True
    chk.assumptions += ["interpreter recursion limit lowered to 400 during replays (stack exhaustion shows as RecursionError cause)"]
    decide(chk, "C14", jobs, variants, strict_counts=False, max_replays=40000 if tier == "quick" else 600000)
    from . import engine_big

    engine_big.check(chk, "C14", tier, cyclic=True)
    cycle_scenarios(chk)
    # ... and over the real commands: a cycle closed through every result parameter of every built-in command (MPValidate.InitCycles)
    from . import validate as V
    from . import decl

    V.run_check(chk, "C14", tier, {"C14"}, [("csv", decl.CSV_LIBS + ("vextra",))] + ([("netcdf", decl.NETCDF_LIBS)] if tier == "thorough" else []), init="InitCycles")
    return chk.finish()
