"""C12 (+ parts of C13, C11): MPValidate.tla over generated declarations -> render + run on the SUT -> MPValidateTrace.tla."""
from __future__ import print_function

import contextlib
import io
import json
import os
import re
import shutil
import sys
import threading
from multiprocessing import Pool

from . import core, decl
from .eems import _tla_to_json, _STATE_RE


def prepare_decl(libs=decl.CSV_LIBS):
    d = core.scratch_dir("mpv-decl-")
    dl = decl.export(libs)
    with open(os.path.join(d, "MC_Decl.tla"), "w") as f:
        f.write(decl.module_text(dl))
    return d, dl


def docs_check(chk, prop, libname, decl_dir, netcdf):
    """the declarations the documentation gives against the live ones (MPDeclDocs); returns the number of findings"""
    dd = decl.doc_export(netcdf)
    if not dd:
        chk.note("documentation (docs/user/lib-eems-*.rst) not found in the tree under test: declarations not compared with it")
        return 0
    with open(os.path.join(decl_dir, "MC_DocDecl.tla"), "w") as f:
        f.write(decl.doc_module_text(dd))
    d = core.scratch_dir("mpv-doc-")
    cfg = os.path.join(d, "d.cfg")
    with open(cfg, "w") as f:
        f.write("CONSTANTS AllKinds = FALSE Pairs = FALSE\nINIT Init\nNEXT Next\nCHECK_DEADLOCK FALSE\n")
    r = core.run_tlc("MPDeclDocs", cfg, workers=1, timeout=300, javaopts=["-DTLA-Library=" + decl_dir])
    if r.error or r.rc != 0:
        core.tlc_fail(r, "MPDeclDocs")
    chk.add_tlc("MPDeclDocs (%s libraries, %d documented commands)" % (libname, len(dd)), r, "DocDecl generated from docs/user/*.rst, Decl from live classes")
    n = 0
    for tag, what in (("REQUIRED", "RequiredDiffers"), ("KIND", "KindDiffers")):
        got = core.parse_printt(r.out, tag)
        for cname, pname in (got[0][1] if got else []):
            n += 1
            docp = [p for c in dd if c[0] == cname for p in c[1] if p[0] == pname][0]
            chk.finding("%s:%s:Docs.%s:%s.%s" % (prop, libname, what, cname, pname),
                        "the documentation declares %s(%s) as %s %s, the command class does not: a model written from the documentation is judged differently" % (
                            cname, pname, "required" if docp[2] else "optional", docp[1]), {"command": cname, "parameter": pname, "documented": docp})
    got = core.parse_printt(r.out, "FUZZ")
    for cname in (got[0][1] if got else []):
        n += 1
        chk.finding("%s:%s:Docs.FuzzinessDiffers:%s" % (prop, libname, cname), "the command %s is documented to produce a %s result, the command class declares otherwise" % (
            cname, [c[2] for c in dd if c[0] == cname][0]), {"command": cname})
    got = core.parse_printt(r.out, "UNDECLARED")
    for cname in (got[0][1] if got else []):
        n += 1
        chk.finding("%s:%s:Docs.CommandMissing:%s" % (prop, libname, cname), "the documented command %s is not defined by the libraries" % cname, {"command": cname})
    return n


def run_model(decl_dir, prepass=True, total=True, dump=True, workers=None, allkinds=False, init="Init"):
    d = core.scratch_dir("mpv-val-")
    cfg = os.path.join(d, "v.cfg")
    with open(cfg, "w") as f:
        f.write("CONSTANTS PrepassAll = %s CleanersTotal = %s AllKinds = %s Pairs = TRUE\nINIT %s\nNEXT Next\nCHECK_DEADLOCK FALSE\n" % (
            "TRUE" if prepass else "FALSE", "TRUE" if total else "FALSE", "TRUE" if allkinds else "FALSE", init))
        for inv in ("AcceptIffWellFormed", "ErrorIsAFault", "RejectBeforeEffects", "EscapeTyped", "CyclicRejected") + (() if allkinds else ("BuilderSound",)):
            f.write("INVARIANT %s\n" % inv)
    dumpf = os.path.join(d, "states") if dump else None
    r = core.run_tlc("MPValidate", cfg, workers=workers, timeout=1500, dump=dumpf, javaopts=["-DTLA-Library=" + decl_dir])
    progs = []
    if dump and r.rc == 0 and not r.violated:
        with open(dumpf + ".dump") as fh:
            txt = fh.read()
        finals = {}
        inits = []
        for blk in _STATE_RE.split(txt):
            if 'phase = "done"' in blk or ('phase = "load"' in blk and re.search(r"/\\ i = 1\s", blk + "\n")):
                parts = {}
                for part in re.split(r"^/\\ ", blk.strip(), flags=re.M):
                    if part.strip():
                        k, _, v = part.partition(" = ")
                        parts[k.strip()] = v.strip()
                key = re.sub(r"\s+", "", parts["prog"])
                if parts["phase"] == '"done"':
                    finals[key] = (_tla_to_json(parts["outcome"]), int(parts["nexec"]))
                else:
                    inits.append((key, _tla_to_json(parts["prog"]), _tla_to_json(parts["tfault"]), json.loads(parts["tcmd"])))
        for key, prog, fault, tcmd in inits:
            progs.append({"prog": prog, "fault": fault, "tcmd": tcmd, "model": finals.get(key)})
        os.unlink(dumpf + ".dump")
    return r, progs


# ----------------------------------------------------------------------------------------------
# rendering

WORDS = {"Direction": "LowToHigh", "TruestOrFalsest": "Truest", "InFieldName": "a", "DimensionFieldName": "a", "NewFieldName": "nf"}
INTS = {"NumberToConsider": "1", "FalseThreshold": "0", "FalseThresholdZScore": "-1", "StartVal": "0", "MissingVal": "-9999", "MissingValue": "-9999"}


def render_value(v, pname, res, netcdf=False):
    k = v[0]
    if k == "ref":
        return v[1]
    if k == "int":
        if v[1] == "bit":
            return "0"
        return INTS.get(pname, "3")
    if k == "float":
        return "2.5"
    if k == "bool":
        return "True"
    if k == "str":
        f = v[1]
        if f == "word":
            return WORDS.get(pname, "abc")
        if f == "boolword":
            return "true"
        if f == "typename":
            return "Float"
        if f == "rel_exists":
            return "in.nc" if netcdf else "in.csv"
        if f == "rel_missing":
            return "out_%s_%s.%s" % (res, pname, "nc" if netcdf else "csv")
        if f == "colb":
            return "b"
        if f == "empty":
            return '""'
        if f == "intstr":
            return '"3"'
        return '"%s"' % f
    if k == "list":
        return "[%s]" % ", ".join(render_value(x, pname, res, netcdf) for x in v[1])
    if k == "dict":
        return '[Color: "Blue", Units: m]' if v[1] != "empty" else "[]"
    raise ValueError(v)


def render(prog, variant=0, netcdf=False):
    """-> (source, line table {lineno: (cmd index, param name or '')})"""
    lines = []
    table = {}
    # in a model with a reference cycle the back edge may enter through a zero-weighted input: the reference is a reference all the same
    zero_weights = variant % 2 == 0 and any(c[0] == "U" for c in prog)
    if variant % 2:        # the file may begin with blank lines (1, 5) or with a comment (3)
        lines += ["", "  ", "# generated model", ""] if variant in (1, 5) else ["# generated model", ""]
    for ci, (res, cname, args) in enumerate(prog):
        if variant % 3 == 1 and ci:
            lines.append("")
        if variant % 3 == 2 and ci:
            lines.append("# command %d" % ci)
        head = "%s = %s" % (res, cname) if res else cname
        if not args:
            lines.append("%s()" % head)
            table[len(lines)] = (ci + 1, "")
            continue
        lines.append("%s(" % head)
        table[len(lines)] = (ci + 1, "")
        for ai, (pn, v) in enumerate(args):
            if variant == 6:  # the value on the line after the name: the argument still starts at its name
                lines.append("    %s =" % pn)
                table[len(lines)] = (ci + 1, pn)
                lines.append("        %s%s" % (render_value(v, pn, res, netcdf), "," if ai < len(args) - 1 else ""))
                table[len(lines)] = (ci + 1, pn)   # ... and reaches to the line its value starts on (either line locates it)
                continue
            text = render_value(v, pn, res, netcdf)
            if zero_weights and pn == "Weights":
                text = re.sub(r"[0-9.]+", "0", text)
            lines.append("    %s = %s%s" % (pn, text, "," if ai < len(args) - 1 else ""))
            table[len(lines)] = (ci + 1, pn)
        lines.append(")")
    return "\n".join(lines) + "\n", table


_W = {}


def _init_worker(libs):
    core.sut()
    import warnings

    warnings.simplefilter("ignore")
    import numpy

    numpy.seterr(all="ignore")
    from . import tracer

    _W["tracer"] = tracer
    _W["libs"] = libs
    _W["root"] = core.scratch_dir("mpv-run-")
    # another program of the same process uses another library: its commands (Probe) are none of the validated programs' business
    from mpilot.program import Program

    _W["other"] = Program(libraries=("vprobe",))


def describe_error(e, table):
    tracer = _W["tracer"]
    cls, mp, syn, cause = tracer.classify(e)
    lineno = getattr(e, "lineno", None)
    at = list(table.get(lineno, (0, ""))) if isinstance(lineno, int) else [0, ""]
    what = ""
    for attr in ("name", "result", "parameter", "command"):
        if hasattr(e, attr) and isinstance(getattr(e, attr), str):
            what = getattr(e, attr)
            break
    params = sorted(str(x) for x in getattr(e, "parameters", ())) if not isinstance(getattr(e, "parameters", None), str) else [getattr(e, "parameters")]
    return {"ok": False, "cls": cls, "mp": bool(mp), "syn": bool(syn), "at": at, "what": what, "lineno": lineno if isinstance(lineno, int) else -1,
            "cause": cause, "params": params}


def make_fixture(wd, netcdf):
    os.makedirs(wd)
    with open(os.path.join(wd, "in.csv"), "w") as f:
        f.write("a,b\n1,4\n2,5\n3,6\n")
    if netcdf:
        from netCDF4 import Dataset
        import numpy

        with Dataset(os.path.join(wd, "in.nc"), "w") as ds:
            ds.createDimension("y", 2)
            ds.createDimension("x", 3)
            for nm, n in (("y", 2), ("x", 3)):
                v = ds.createVariable(nm, "f8", (nm,))
                v[:] = numpy.arange(n, dtype=float)
            a = ds.createVariable("a", "f8", ("y", "x"))
            a[:] = numpy.arange(6, dtype=float).reshape(2, 3)


def api_load(src, libs, wd):
    """the same model assembled through the programming interface: Program.add_command with plain values (no parser arguments, hence no argument lines)"""
    from collections import OrderedDict
    from mpilot.program import Program
    from mpilot.parser.parser import Parser
    from mpilot.exceptions import CommandDoesNotExist

    def plain(x):
        v = x.value if type(x).__name__ == "ExpressionNode" else x
        if isinstance(v, list):
            return [plain(y) for y in v]
        if isinstance(v, dict):
            return OrderedDict((k, plain(y)) for k, y in v.items())
        return v

    p = Program(libraries=libs, working_dir=wd)
    for node in Parser().parse(src).commands:
        cls = p.find_command_class(node.command)
        if cls is None:
            raise CommandDoesNotExist(node.command, node.lineno)
        p.add_command(cls, node.result_name, OrderedDict((a.name, plain(a.value)) for a in node.arguments), node.lineno)
    return p


def run_one(job):
    """job = (id, prog, variant, netcdf) -> trace record + info.  Modes (by job id): the model loaded from its source text; loaded with an empty
    working directory from inside its folder; assembled through the API; and - when the command under test is the last one - loaded without its last two
    commands, run, completed through add_command and run again (what matters is the second run: the rejection precedes every new execution and file)"""
    jid, prog, variant, netcdf = job
    tracer = _W["tracer"]
    from collections import OrderedDict
    from mpilot.program import Program

    src, table = render(prog, variant, netcdf)
    wd = os.path.join(_W["root"], "w%d" % jid)
    make_fixture(wd, netcdf)
    before = set(os.listdir(wd))
    tracer.reset()
    ev = []
    out = io.StringIO()
    # (a reference to the finished PrintVars result B is judged by its value - None - instead of its declared kind: another, equally specific error;
    #  such programs are not run in the add-after-run mode)
    refs_b = '"B"' in json.dumps(prog[-1][2])
    if len(prog) >= 3:
        # (the first part must be a complete model of its own: nothing in it may refer to the two commands added later)
        head_args = json.dumps([c[2] for c in prog[:-2]])
        refs_b = refs_b or any('["ref", "%s"]' % c[0] in head_args for c in prog[-2:])
    mode = "cwd" if jid % 5 == 2 else "api" if jid % 7 == 5 else \
        "late" if (jid % 7 == 6 and len(prog) >= 4 and prog[-1][0] in ("T", "R") and prog[-2][0] != "T" and not refs_b) else "source"
    nolines = mode in ("api", "late")
    with contextlib.redirect_stdout(out):
        try:
            if mode == "cwd":
                # as the command-line tool does for a bare file name: the working directory is "" and the process runs inside the model's folder
                os.chdir(wd)
                p = Program.from_source(src, libraries=_W["libs"], working_dir="")
            elif mode == "api":
                p = api_load(src, _W["libs"], wd)
            elif mode == "late":
                head, _ = render(prog[:-2], variant, netcdf)
                tail, _ = render(prog[-2:], variant, netcdf)
                p = Program.from_source(head, libraries=_W["libs"], working_dir=wd)
                p.run()
                before = set(os.listdir(wd))
                rest = Program.from_source(tail, libraries=_W["libs"], working_dir=wd)
                for nm, cmd in rest.commands.items():
                    p.add_command(type(cmd), nm, OrderedDict((a.name, a) for a in cmd.arguments), cmd.lineno)
                src = head + "# --- run(), then through add_command: ---\n" + tail
            else:
                p = Program.from_source(src, libraries=_W["libs"], working_dir=wd)
            ev.append({"ev": "load", "ok": True, "cls": "", "mp": True, "syn": False, "at": [0, ""], "what": "", "params": []})
        except BaseException as e:
            p = None
            d = describe_error(e, table)
            d["ev"] = "load"
            ev.append(d)
        if p is not None:
            tracer.reset()
            tracer.install()
            try:
                p.run()
                res = {"ok": True, "cls": "", "mp": True, "syn": False, "at": [0, ""], "what": "", "params": []}
            except BaseException as e:
                res = describe_error(e, table)
            done_before = set(prog[k][0] for k in range(len(prog) - 2)) if mode == "late" else set()
            for e in tracer.EV:
                if e["ev"] == "exec_begin":
                    ev.append({"ev": "exec_begin", "c": e["c"], "kw": e.get("kw", [])})
            res["ev"] = "ret_run"
            ev.append(res)
    os.chdir(_W["root"])
    new = sorted(set(os.listdir(wd)) - before)
    ev.append({"ev": "files", "n": len(new), "names": new})
    shutil.rmtree(wd, ignore_errors=True)
    return {"id": jid, "prog": prog, "ev": ev, "nolines": nolines, "mode": mode}, src


def run_programs(progs, variants, libs, netcdf=False):
    jobs = []
    for pi, pr in enumerate(progs):
        for v in variants:
            jobs.append((len(jobs), pr["prog"], v, netcdf))
    with Pool(core.NCPU, initializer=_init_worker, initargs=(libs,)) as pool:
        res = pool.map(run_one, jobs, chunksize=max(1, len(jobs) // (core.NCPU * 8)))
    return jobs, res


def validate_traces(chk, records, decl_dir):
    shards = min(core.NCPU, max(1, len(records) // 300))
    d = core.scratch_dir("mpv-vtr-")
    cfg = os.path.join(d, "t.cfg")
    with open(cfg, "w") as f:
        f.write("CONSTANTS AllKinds = FALSE Pairs = FALSE\nINIT Init\nNEXT Next\nCHECK_DEADLOCK FALSE\nINVARIANT Report\n")
    files = []
    for s in range(shards):
        part = records[s::shards]
        if part:
            path = os.path.join(d, "t%d.ndjson" % s)
            with open(path, "w") as f:
                for r in part:
                    f.write(json.dumps(r) + "\n")
            files.append(path)
    results = [None] * len(files)

    def work(i):
        results[i] = core.run_tlc("MPValidateTrace", cfg, workers=1, env={"TRACE_FILE": files[i]}, timeout=1800,
                                  javaopts=["-DTLA-Library=" + decl_dir])

    ths = [threading.Thread(target=work, args=(i,)) for i in range(len(files))]
    for t in ths:
        t.start()
    for t in ths:
        t.join()
    verdicts = {}
    tot = core.TLCResult()
    for r in results:
        if r.rc != 0 or r.error:
            core.tlc_fail(r, "MPValidateTrace")
        for v in core.parse_printt(r.out, "VERDICT"):
            verdicts[v[1]] = (v[2], v[3])
        tot.states += r.states
        tot.distinct += r.distinct
        tot.wall = max(tot.wall, r.wall)
    chk.add_tlc("MPValidateTrace validation (%d shards)" % len(files), tot, "TRACE_FILE=<recorded load+run traces>, MC_Decl generated from live classes")
    if len(verdicts) != len(records):
        sys.stderr.write("MACHINERY FAILURE: %d verdicts for %d traces\n" % (len(verdicts), len(records)))
        sys.exit(2)
    chk.cov["traces_validated_against_impl"] += len(records)
    return verdicts


def fault_label(pr):
    f = pr["fault"]
    if f[0] == "wrong":
        return "wrong:%s<-%s" % (f[1], json.dumps(f[2]).replace('"', ""))
    return f[0] + (":" + f[1] if f[1] else "")


def run_check(chk, prop, tier, clause_prefixes, libsets, allkinds=False, keep=None, init="Init"):
    for libname, libs in libsets:
        netcdf = libname == "netcdf"
        decl_dir, dl = prepare_decl(libs)
        ndoc = docs_check(chk, prop, libname, decl_dir, netcdf) if prop == "C12" else 0
        r, progs = run_model(decl_dir, allkinds=allkinds, init=init)
        if r.violated == "BuilderSound" and prop != "C12":
            chk.note("MPValidate's fixture is ill-formed under the live declarations (BuilderSound): that is C12's subject; this part of %s is skipped" % prop)
            return
        if r.violated == "BuilderSound" and ndoc:
            # the fixture itself is no longer well-formed under the live declarations: the documented declarations say why (reported above)
            chk.note("MPValidate's fixture is ill-formed under the live declarations (BuilderSound); the run stops at the declaration findings")
            return
        if r.violated:
            sys.stderr.write("MACHINERY FAILURE: MPValidate violates %s under the intended switches\n%s\n" % (r.violated, r.out[-3000:]))
            sys.exit(2)
        if r.error or r.rc != 0:
            core.tlc_fail(r, "MPValidate")
        chk.add_tlc("MPValidate pipeline (%s libraries, %d declared commands)" % (libname, len(dl)), r,
                    "PrepassAll=TRUE CleanersTotal=TRUE; Decl generated from live classes")
        variants = [core.SEED % 6] if tier == "quick" else [(core.SEED + k) % 6 for k in range(3)]
        if prop == "C11":
            variants = sorted(set(variants + [1, 6]))
        jobs, res = run_programs(progs, variants, libs, netcdf)
        chk.cov["evaluations"] += len(res)
        records = [rec for rec, src in res]
        verdicts = validate_traces(chk, records, decl_dir)
        nontriv = set()
        nsamp = 0
        for (jid, prog, variant, _), (rec, src) in zip(jobs, res):
            pr = progs[jid // len(variants)]
            if pr["fault"][0] != "none":
                nontriv.add(json.dumps(pr["prog"]))
            verdict, pos = verdicts[jid]
            # spec -> code: the pipeline model's terminal state against the implementation's outcome
            last = [e for e in rec["ev"] if e["ev"] in ("load", "ret_run")][-1]
            model = pr["model"]
            if model and prop == "C12":
                mok = model[0][0] == "ok"
                nb = len([e for e in rec["ev"] if e["ev"] == "exec_begin"])
                if mok != bool(last["ok"]) and not (mok and nb > 0):
                    chk.finding("C12:%s:Replay.Outcome:%s" % (libname, pr["fault"][0]),
                                "MPValidate reaches %s for this program, the implementation %s" % (model[0][:2], "accepted it" if last["ok"] else "raised " + last["cls"]),
                                {"source": src, "target": pr["tcmd"], "fault": pr["fault"], "model_outcome": model[0], "observed": last})
            if verdict != "ok" and verdict.split(".")[0] in clause_prefixes:
                chk.finding("%s:%s:%s:%s" % (prop, libname, verdict, pr["fault"][0]),
                            "trace rejected by MPValidateTrace at event %d: %s (target %s, fault %s)" % (pos - 1, verdict, pr["tcmd"], fault_label(pr)),
                            {"source": src, "target": pr["tcmd"], "fault": pr["fault"], "events": rec["ev"]})
            elif nsamp < 3 and jid % 977 == 5:
                nsamp += 1
                chk.sample({"libraries": libname, "target": pr["tcmd"], "fault": pr["fault"], "source": src, "events": rec["ev"], "model_outcome": model})
        chk.cov["distinct_nontrivial"] += len(nontriv)
        if keep is not None:
            keep.append((libname, libs, netcdf, progs, jobs, res))


def check_C12(tier):
    chk = core.Check("C12", tier)
    core.sut()
    libsets = [("csv", decl.CSV_LIBS + ("vextra",))] + ([("netcdf", decl.NETCDF_LIBS)] if tier == "thorough" else [])
    # an exception that is no MPilot error at all is, for an ill-formed model, also not "the specific error" C12 asks for
    run_check(chk, "C12", tier, {"C12", "C13"}, libsets)
    chk.cov["rule"] = ("declarations are exported from the live command classes into MC_Decl.tla; TLC builds, for every declared command (required-only and all-parameter forms) a valid model around it "
                       "(readers, fuzzy producers, a Boolean-valued producer, a writer) and injects every single fault (unknown command, duplicate result, each missing required parameter, undeclared "
                       "parameter, every wrong value kind per parameter incl. list items, dangling reference, wrong output kind, wrong fuzziness) with the target first or last, explores the "
                       "load/pre-pass/execute pipeline step by step and checks AcceptIffWellFormed, ErrorIsAFault, RejectBeforeEffects, BuilderSound; every program is rendered, run with "
                       "the execute tracer and a directory snapshot, compared with the model's terminal state, and its trace validated by TLC against Faults(prog). non-trivial = program with a fault")
    chk.cov["exhaustive"] = True
    chk.assumptions += ["execute-time semantic errors (direction, thresholds, weight counts) are not ill-formedness: a well-formed model may still fail while running"]
    return chk.finish()


# ----------------------------------------------------------------------------------------------
# C13: every kind confusion + run-time error scenarios, through the API and through the command-line tool

RUNTIME_SCENARIOS = [
    # (name, source, extra files)
    ("mixed-shapes-1d", "A = EEMSRead(InFileName = in.csv, InFieldName = a)\nB = EEMSRead(InFileName = short.csv, InFieldName = a)\nS = Sum(InFieldNames = [A, B])\n",
     {"short.csv": "a\n1\n2\n"}),
    ("mixed-shapes-aminusb", "A = EEMSRead(InFileName = in.csv, InFieldName = a)\n\nB = EEMSRead(InFileName = short.csv, InFieldName = a)\nS = AMinusB(\n  A = A,\n  B = B)\n",
     {"short.csv": "a\n1\n2\n"}),
    ("empty-inputs", "S = Sum(InFieldNames = [])\n", {}),
    ("mismatched-weights", "A = EEMSRead(InFileName = in.csv, InFieldName = a)\nS = WeightedSum(InFieldNames = [A, A], Weights = [1])\n", {}),
    ("invalid-thresholds", "A = EEMSRead(InFileName = in.csv, InFieldName = a)\nF = CvtToFuzzy(InFieldName = A, TrueThreshold = 1, FalseThreshold = 1)\n", {}),
    ("invalid-direction", "A = EEMSRead(InFileName = in.csv, InFieldName = a)\nF = CvtToFuzzy(InFieldName = A,\n   Direction = Sideways)\n", {}),
    ("invalid-number-to-consider", "A = EEMSRead(InFileName = in.csv, InFieldName = a)\nF = CvtToFuzzy(InFieldName = A)\nU = FuzzySelectedUnion(InFieldNames = [F], TruestOrFalsest = Truest, NumberToConsider = 3)\n", {}),
    ("invalid-truest", "A = EEMSRead(InFileName = in.csv, InFieldName = a)\nF = CvtToFuzzy(InFieldName = A)\nU = FuzzySelectedUnion(InFieldNames = [F], TruestOrFalsest = Middle, NumberToConsider = 1)\n", {}),
    ("mixed-lengths", "A = EEMSRead(InFileName = in.csv, InFieldName = a)\nN = NormalizeCurve(InFieldName = A, RawValues = [1, 2], NormalValues = [0])\n", {}),
    ("duplicate-raw", "A = EEMSRead(InFileName = in.csv, InFieldName = a)\nN = NormalizeCat(InFieldName = A, RawValues = [1, 1], NormalValues = [0, 1], DefaultNormalValue = 0)\n", {}),
    ("xor-one-input", "A = EEMSRead(InFileName = in.csv, InFieldName = a)\nF = CvtToFuzzy(InFieldName = A)\nX = FuzzyXOr(InFieldNames = [F])\n", {}),
    ("csv-empty-file", "A = EEMSRead(InFileName = empty.csv, InFieldName = a)\n", {"empty.csv": ""}),
    ("csv-missing-column", "A = EEMSRead(InFileName = in.csv, InFieldName = zzz)\n", {}),
    ("csv-non-numeric", "A = EEMSRead(InFileName = bad.csv, InFieldName = a)\n", {"bad.csv": "a,b\n1,2\nx,3\n"}),
    ("csv-empty-cell", "A = EEMSRead(InFileName = bad.csv, InFieldName = b)\n", {"bad.csv": "a,b\n1,2\n3,\n"}),
    ("csv-ragged-row", "A = EEMSRead(InFileName = bad.csv, InFieldName = b)\n", {"bad.csv": "a,b\n1,2\n3\n4,5\n"}),
    ("csv-header-only", "A = EEMSRead(InFileName = bad.csv, InFieldName = a)\nF = CvtToFuzzy(InFieldName = A)\n", {"bad.csv": "a,b\n"}),
    ("csv-binary-garbage", "A = EEMSRead(InFileName = bad.csv, InFieldName = a)\n", {"bad.csv": "a\n\x00\x01\n"}),
    ("cycle", "A = Copy(InFieldName = B)\nB = Copy(InFieldName = A)\n", {}),
    ("write-to-missing-dir", "A = EEMSRead(InFileName = in.csv, InFieldName = a)\nW = EEMSWrite(OutFileName = nodir/out.csv, OutFieldNames = [A])\n", {}),
    ("write-2d-unsupported", "A = EEMSRead(InFileName = in.csv, InFieldName = a)\nW = EEMSWrite(OutFileName = out.csv, OutFieldNames = [])\n", {}),
    ("dtype-integer-fraction", "A = EEMSRead(InFileName = frac.csv, InFieldName = a, DataType = Integer, MissingVal = 2.5)\n", {"frac.csv": "a\n1.5\n2.5\n"}),
    ("unicode-metadata", u"A = EEMSRead(InFileName = in.csv, InFieldName = a, Metadata = [Title: \"Fl\u00e4che \u2013 \u20ac 5 \u4e2d\u6587 \u03b1\", Note: '\u201cquoted\u201d'])\n", {}),
    ("unicode-unknown-field", u"A = EEMSRead(InFileName = in.csv, InFieldName = \"\u0394h \u2013 m\")\n", {}),
    ("unicode-comment", u"# \u00dcbersicht \u2014 \u4e2d\nA = EEMSRead(InFileName = in.csv, InFieldName = a)\n", {}),
    ("syntax-list-mixes-pair", "A = EEMSRead(InFileName = in.csv, InFieldName = a, Metadata = [1, a:b])\n", {}),
    ("syntax-unbalanced", "A = EEMSRead(InFileName = in.csv, InFieldName = a\n", {}),
    ("syntax-bad-char", "A = EEMSRead(InFileName = in.csv, InFieldName = \"a)\n", {}),
    ("huge-int-literal", "A = EEMSRead(InFileName = in.csv, InFieldName = a, MissingVal = %s)\n" % ("9" * 5000), {}),
    ("huge-float-literal", "A = EEMSRead(InFileName = in.csv, InFieldName = a, MissingVal = -1.%se400)\n" % ("9" * 5000), {}),
    ("eems2-list-as-result-name", "READ(InFileName = in.csv, InFieldName = [a])\n", {}),
    ("eems2-list-as-new-field-name", "READ(InFileName = in.csv, InFieldName = a, NewFieldName = [b, c])\n", {}),
    ("eems2-pair-list-as-new-field-name", "READ(InFileName = in.csv, InFieldName = a, NewFieldName = [b: c])\n", {}),
    ("eems2-no-result-name", "READ(InFileName = in.csv, InFieldName = a)\nSUM(InFieldNames = [a, a])\n", {}),
    ("eems2-number-as-new-field-name", "READ(InFileName = in.csv, InFieldName = a, NewFieldName = 5)\nCOPYFIELD(InFieldName = 5, NewFieldName = c)\n", {}),
    ("syntax-number-newline-word", "A = EEMSRead(InFileName = in.csv, InFieldName = a, Metadata = [Year: 2020\n   Source: x])\n", {}),
    ("syntax-number-comment-word", "A = EEMSRead(InFileName = in.csv, InFieldName = a)\nF = CvtToFuzzy(InFieldName = A, TrueThreshold = 5 # was 4\n    units, FalseThreshold = 1)\n", {}),
    ("syntax-float-newline-word-in-list", "A = EEMSRead(InFileName = in.csv, InFieldName = a)\nS = WeightedSum(InFieldNames = [A, A], Weights = [0.25\n  A])\n", {}),
    ("path-with-nul-character", "A = EEMSRead(InFileName = \"da\x00ta.csv\", InFieldName = a)\n", {}),
    ("path-too-long", "A = EEMSRead(InFileName = %s.csv, InFieldName = a)\n" % ("d" * 5000), {}),
    ("write-path-with-nul-character", "A = EEMSRead(InFileName = in.csv, InFieldName = a)\nW = EEMSWrite(OutFileName = \"o\x00.csv\", OutFieldNames = [A])\n", {}),
    ("invalid-direction-among-namesakes", "A = EEMSRead(InFileName = in.csv, InFieldName = a)\nF = CvtToFuzzy(InFieldName = A,\n   Direction = Sideways)\n\n\nG = CvtToFuzzy(InFieldName = A,\n\n   Direction = LowToHigh)\nH = CvtToBinary(InFieldName = A, Threshold = 1,\n  Direction = HighToLow)\n", {}),
    ("line-separator-characters-above-the-fault", u"# form feed \x0c next line \x85 line separator \u2028 paragraph separator \u2029 in a comment\nA = EEMSRead(InFileName = in.csv, InFieldName = a, Metadata = [Note: \"vt \x0b ff \x0c fs \x1c ls \u2028\"])\n\nF = CvtToFuzzy(InFieldName = A,\n   Direction = Sideways)\n", {}),
    ("ok-model", "A = EEMSRead(InFileName = in.csv, InFieldName = a)\nF = CvtToFuzzy(InFieldName = A)\nW = EEMSWrite(OutFileName = out.csv, OutFieldNames = [A, F])\n", {}),
]


# lines of the offending command in the run-time scenarios: an error that carries a line must carry one of these
SCENARIO_LINES = {"invalid-direction-among-namesakes": [2, 3], "line-separator-characters-above-the-fault": [4, 5], "mixed-shapes-1d": [3], "mixed-shapes-aminusb": [4, 5, 6], "empty-inputs": [1], "mismatched-weights": [2], "invalid-thresholds": [2],
                  "invalid-direction": [2, 3], "invalid-number-to-consider": [3], "invalid-truest": [3], "mixed-lengths": [2], "duplicate-raw": [2],
                  "xor-one-input": [3], "cycle": [1, 2], "write-to-missing-dir": [2], "csv-empty-file": [1], "csv-missing-column": [1], "csv-non-numeric": [1],
                  "csv-empty-cell": [1], "csv-ragged-row": [1], "csv-header-only": [1, 2], "csv-binary-garbage": [1]}


def cli_one(job):
    """(id, name, source, extra files, netcdf) -> MPCliTrace record"""
    jid, name, src, extra, netcdf = job
    from mpilot.program import Program
    from mpilot.cli.mpilot import main
    from mpilot.exceptions import MPilotError

    tracer = _W["tracer"]
    wd = os.path.join(_W["root"], "c%d" % jid)

    def fresh():
        shutil.rmtree(wd, ignore_errors=True)
        make_fixture(wd, netcdf)
        for fn, txt in extra.items():
            with open(os.path.join(wd, fn), "w") as f:
                f.write(txt)
        with open(os.path.join(wd, "model.mpt"), "w") as f:
            f.write(src)

    fresh()
    out = io.StringIO()
    msg, lineno, outcome, cls = "", 0, "ok", ""
    with contextlib.redirect_stdout(out):
        try:
            Program.from_source(src, libraries=_W["libs"], working_dir=wd).run()
        except BaseException as e:
            cls = type(e).__name__
            outcome = "mpilot" if isinstance(e, MPilotError) else "syntax" if isinstance(e, SyntaxError) else "other"
            try:
                msg = str(e)
            except BaseException as e2:
                msg = "<str() raised %s>" % type(e2).__name__
            ln = getattr(e, "lineno", None)
            lineno = ln if isinstance(ln, int) and outcome == "mpilot" else 0
    fresh()
    err = io.StringIO()
    code = 0
    tb = False
    with contextlib.redirect_stdout(out), contextlib.redirect_stderr(err):
        try:
            # programs over the probe library go through the tool with that library requested by -l (the option's path to Program)
            extra_opts = ["-l", "vextra"] if name.startswith("matrix-l/") else []
            main.main(args=extra_opts + ["eems-netcdf" if netcdf else "eems-csv", os.path.join(wd, "model.mpt")], standalone_mode=False)
        except SystemExit as e:
            code = e.code if isinstance(e.code, int) else (0 if e.code is None else 1)
        except BaseException as e:
            tb = True
            code = 1
            err.write("Traceback: %s: %s" % (type(e).__name__, e))
    stderr = err.getvalue()
    src_lines = [l.strip("\n\r") for l in src.split("\n")]
    arrow, arrowtext = 0, False
    for l in stderr.split("\n"):
        if l.startswith("--> "):
            txt = l[4:]
            if 0 < lineno <= len(src_lines) and txt == src_lines[lineno - 1]:
                arrow, arrowtext = lineno, True
            else:
                cands = [i + 1 for i, s in enumerate(src_lines) if s == txt]
                arrow, arrowtext = (cands[0] if cands else -1), False
    shutil.rmtree(wd, ignore_errors=True)
    norm = lambda t: re.sub(r"0x[0-9a-f]+", "0x", t)
    first = norm(msg.split("\n")[0]) if msg else ""
    stderr_n = norm(stderr)
    lineok = not (lineno and name in SCENARIO_LINES and lineno not in SCENARIO_LINES[name])
    return {"id": jid, "name": name, "outcome": outcome, "cls": cls, "lineno": lineno or 0, "lineok": bool(lineok), "nlines": len(src_lines), "exit": code & 0xFF,
            "banner": "ERROR: There was a problem running the MPilot command file." in stderr, "message": bool(first) and first in stderr_n,
            "arrow": arrow, "arrowtext": arrowtext, "traceback": tb, "stderr": stderr[:600], "source": src, "api_message": msg[:300]}


def run_cli(chk, prop, jobs, libs, prefixes):
    with Pool(core.NCPU, initializer=_init_worker, initargs=(libs,)) as pool:
        recs = pool.map(cli_one, jobs, chunksize=max(1, len(jobs) // (core.NCPU * 4)))
    chk.cov["evaluations"] += len(recs)
    d = core.scratch_dir("mpv-cli-")
    cfg = os.path.join(d, "t.cfg")
    with open(cfg, "w") as f:
        f.write("INIT Init\nNEXT Next\nCHECK_DEADLOCK FALSE\nINVARIANT Report\n")
    path = os.path.join(d, "cli.ndjson")
    keys = ("id", "outcome", "lineno", "lineok", "nlines", "exit", "banner", "message", "arrow", "arrowtext", "traceback")
    with open(path, "w") as f:
        for r in recs:
            f.write(json.dumps({k: r[k] for k in keys}) + "\n")
    r = core.run_tlc("MPCliTrace", cfg, workers=1, env={"TRACE_FILE": path}, timeout=600)
    if r.rc != 0 or r.error:
        core.tlc_fail(r, "MPCliTrace")
    chk.add_tlc("MPCliTrace validation", r, "TRACE_FILE=<recorded CLI runs>")
    verdicts = {v[1]: v[2] for v in core.parse_printt(r.out, "VERDICT")}
    if len(verdicts) != len(recs):
        sys.stderr.write("MACHINERY FAILURE: %d verdicts for %d CLI records\n" % (len(verdicts), len(recs)))
        sys.exit(2)
    chk.cov["traces_validated_against_impl"] += len(recs)
    for rec in recs:
        v = verdicts[rec["id"]]
        if rec["outcome"] == "other" and "C13" in prefixes:
            chk.finding("C13:api:EscapedClass:%s" % rec["name"].split("/")[0], "load+run raised %s, neither a syntax error nor an MPilot error" % rec["cls"],
                        {"scenario": rec["name"], "source": rec["source"], "message": rec["api_message"]})
        if v != "ok" and v.split(".")[0] in prefixes:
            chk.finding("%s:cli:%s:%s" % (prop, v, rec["cls"] or rec["name"]), "command-line tool: %s for %s" % (v, rec["cls"]),
                        {"scenario": rec["name"], "source": rec["source"], "stderr": rec["stderr"], "exit": rec["exit"], "api": [rec["outcome"], rec["cls"], rec["lineno"]]})
    return recs


def cli_model(chk):
    d = core.scratch_dir("mpv-clim-")
    cfg = os.path.join(d, "c.cfg")
    with open(cfg, "w") as f:
        f.write("CONSTANTS StrTotal = TRUE NLines = 4\nSPECIFICATION Spec\nCHECK_DEADLOCK FALSE\nINVARIANT ReportsMPilotErrors\nINVARIANT MarksErrorLine\n"
                "INVARIANT SuccessIsZero\nINVARIANT NeverSilent\nPROPERTY Exits\n")
    r = core.run_tlc("MPCli", cfg, workers=2, timeout=300, deadlock=True)
    if r.violated or r.error or r.rc != 0:
        sys.stderr.write("MACHINERY FAILURE: MPCli\n%s\n" % r.out[-2000:])
        sys.exit(2)
    chk.add_tlc("MPCli", r, "StrTotal=TRUE NLines=4 + liveness Exits")


FUZZ_BASE = [
    'A = EEMSRead(InFileName = "in.csv", InFieldName = a, MissingVal = -9999)\nF = CvtToFuzzy(InFieldName = A, TrueThreshold = 1.5e2, FalseThreshold = -.5)\n'
    'U = FuzzyWeightedUnion(InFieldNames = [F, F], Weights = [1, 2.5], Metadata = [Color: "Blue", k: v])\n# comment\nW = EEMSWrite(OutFileName = out.csv, OutFieldNames = [A, U],)\n',
    "READ(InFileName = in.csv, InFieldName = a)\nCVTTOFUZZY(InFieldName = a, NewFieldName = f, TrueThreshold = 2, FalseThreshold = 0)\n",
    "X = Sum(InFieldNames = [[A], ['b \\' c'], C:\\x y\\z, 3d, -1, +.5, 1.e3])\r\nY = Copy(\r\n  InFieldName = X\r\n)\r\n",
]
FUZZ_BASE.append("A = EEMSRead(InFileName = in.csv,\n  InFieldName = a,\n  MissingVal = -9999, # none\n  DataType = Float)\n"
                 "N = NormalizeCurve(InFieldName = A, RawValues = [1,\n 2.5,\n 3], NormalValues = [0, .5 # mid\n , 1],\n Metadata = [Year: 2020,\n Source: x, Rank: 3\n])\n")
FUZZ_VALUES = ["[a]", "[]", "[a: b]", "9" * 4400, "-" + "1" * 4400, "1e400", "''", "True", "[[a]]", "a b", "0x1F", "." + "3" * 4400, "a" * 5000, "[" * 200 + "]" * 200]
FUZZ_CHARS = list("()[]=,:#\"'\\ \n\t\r.-+eE09aZ_") + ["\u00e9", "\u4e2d", "\U0001f600", "\x00", "\x0c", "True", "False", "[[", "]]", ",,", "==", "\\\"", "1e", "-"]


def text_fuzz(chk, rounds):
    """unconstrained edits around valid files: whatever the text, parsing and loading end in success, SyntaxError or an MPilot error"""
    import random
    from mpilot.program import Program
    from mpilot.parser.parser import Parser
    from mpilot.exceptions import MPilotError

    rng = random.Random(core.SEED + 131)
    shown = 0
    for it in range(rounds):
        t = rng.choice(FUZZ_BASE)
        for _ in range(rng.randint(1, 3)):
            pos = rng.randint(0, len(t))
            op = rng.random()
            if op < 0.12:        # replace one argument value by a value of another kind / an extreme literal
                eqs = [m.end() for m in re.finditer(r"= *", t)]
                if eqs:
                    a = rng.choice(eqs)
                    m = re.compile(r"[,)\n]").search(t, a)
                    b = m.start() if m else len(t)
                    t = t[:a] + rng.choice(FUZZ_VALUES) + t[b:]
            elif op < 0.35:
                t = t[:pos] + rng.choice(FUZZ_CHARS) + t[pos:]
            elif op < 0.7:
                t = t[:pos] + t[pos + rng.randint(1, 3):]
            elif op < 0.85:
                t = t[:pos] + t[pos:pos + rng.randint(1, 6)] * 2 + t[pos:]
            else:
                t = t[:pos]
        chk.cov["evaluations"] += 1
        for stage, fn in (("parse", lambda: Parser().parse(t)), ("load", lambda: Program.from_source(t, libraries=decl.CSV_LIBS, working_dir="/nonexistent"))):
            try:
                fn()
            except (SyntaxError, MPilotError):
                pass
            except BaseException as e:
                chk.finding("C13:%s:EscapedClass:fuzz:%s" % (stage, type(e).__name__), "%s of an edited command file raised %s: %s" % (stage, type(e).__name__, str(e)[:120]),
                            {"text": t})
                break
    chk.cov["text_fuzz_cases"] = rounds


def check_C13(tier):
    chk = core.Check("C13", tier)
    core.sut()
    keep = []
    libsets = [("csv", decl.CSV_LIBS + ("vextra",))] + ([("netcdf", decl.NETCDF_LIBS)] if tier == "thorough" else [])
    run_check(chk, "C13", tier, {"C13"}, libsets, allkinds=True, keep=keep)
    cli_model(chk)
    libname, libs, netcdf, progs, jobs, res = keep[0]
    step = 29 if tier == "quick" else 5
    cjobs = []
    for k in range(core.SEED % step, len(res), step):
        rec, src = res[k]
        pr = progs[jobs[k][0] // max(1, len(res) // len(progs))]
        # the command-line tool only knows the built-in libraries: commands of the probe library need "-l vextra"
        kind = "matrix-l" if pr["tcmd"] in ("Extras", "NotAgain") else "matrix"
        cjobs.append((len(cjobs), "%s/%s/%s" % (kind, pr["tcmd"], pr["fault"][0]), src, {}, False))
    # ... and every (sampled or not) program built around a probe-library command, so that the -l path is never left to the sampling step
    seen = {j[2] for j in cjobs}
    for k in range(len(res)):
        pr = progs[jobs[k][0] // max(1, len(res) // len(progs))]
        if pr["tcmd"] in ("Extras", "NotAgain") and res[k][1] not in seen and (tier == "thorough" or k % 7 == core.SEED % 7):
            seen.add(res[k][1])
            cjobs.append((len(cjobs), "matrix-l/%s/%s" % (pr["tcmd"], pr["fault"][0]), res[k][1], {}, False))
    for name, src, extra in RUNTIME_SCENARIOS:
        cjobs.append((len(cjobs), name, src, extra, False))
    recs = run_cli(chk, "C13", cjobs, libs, {"C13"})
    chk.cov["cli_runs_with_library_option"] = sum(1 for j in cjobs if j[1].startswith("matrix-l/"))
    chk.cov["cli_runs_with_library_option_succeeding"] = sum(1 for r in recs if r["name"].startswith("matrix-l/") and r["outcome"] == "ok")
    if not chk.cov["cli_runs_with_library_option_succeeding"]:
        sys.stderr.write("MACHINERY FAILURE: no successful CLI run with -l\n")
        sys.exit(2)
    text_fuzz(chk, 3000 if tier == "quick" else 60000)
    for r in recs:
        if r["name"] in ("mixed-shapes-1d", "csv-non-numeric", "matrix") or len(chk.cov["samples"]) < 2:
            chk.sample({"scenario": r["name"], "source": r["source"], "api_outcome": [r["outcome"], r["cls"], r["lineno"]], "cli_exit": r["exit"], "stderr": r["stderr"][:300]}, cap=6)
    chk.cov["rule"] = ("(1) every declared command x parameter x every raw value kind (the full kind-confusion matrix, incl. those the parameter table leaves unspecified) built by MPValidate(AllKinds), "
                       "rendered and run through from_source+run: the class of whatever escapes is validated by TLC (C13.EscapedClass); (2) run-time scenarios for every library error class and CSV "
                       "content faults (empty, missing column, non-numeric, empty cell, ragged, header only, binary); (3) a sample of (1) and all of (2) through the command-line tool, validated "
                       "against MPCliTrace (exit status, banner + problem/solution text on stderr, no traceback); MPCli is model-checked incl. liveness. non-trivial = program with a fault")
    chk.cov["exhaustive"] = True
    chk.assumptions += ["syntactic corruption is covered by C10's corpus (C13 re-uses its outcome classes once C10 is built)"]
    return chk.finish()
