"""Larger programs for C01 / C14 (five commands: the bound the properties state), beyond what TLC enumerates.

MPRun is explored exhaustively for <= 3 commands (4 with bounded edges); the trace specification MPRunAbsTrace, however, takes the program
from the trace header and is independent of N.  This module draws random five-command programs (every ordered pair of commands a reference
with some probability, every reference direct or listed, self-loops allowed), replays random call histories on the real engine and lets
TLC validate every recorded trace against MPRunAbsTrace: for a cyclic graph the call must end in the recursive-model error without
re-entering a command or exhausting the stack (C14.*), for an acyclic one every command runs exactly once on finished inputs and the values
are the terms of the dependency graph (C01.*)."""
from __future__ import print_function

import random

from . import core


def _cyclic(n, deps):
    color = {}

    def visit(c):
        color[c] = 1
        for d in deps[c]:
            if color.get(d) == 1 or (d not in color and visit(d)):
                return True
        color[c] = 2
        return False

    return any(c not in color and visit(c) for c in range(1, n + 1))


def random_jobs(cyclic, count, seed, n=5):
    rng = random.Random(seed)
    jobs = []
    shapes = set()
    guard = 0
    while len(jobs) < count and guard < count * 200:
        guard += 1
        p = rng.choice([0.08, 0.15, 0.25, 0.4])
        direct = {c: [] for c in range(1, n + 1)}
        listed = {c: [] for c in range(1, n + 1)}
        for c in range(1, n + 1):
            for d in range(1, n + 1):
                if rng.random() < p:
                    (direct if rng.random() < 0.5 and len(direct[c]) < 5 else listed)[c].append(d)
        deps = {c: direct[c] + listed[c] for c in direct}
        if _cyclic(n, deps) != cyclic:
            continue
        k = rng.choice([1, 1, 2, 3])
        hist = []
        for _ in range(k):
            hist.append(("run", 0) if rng.random() < 0.6 else ("result", rng.randint(1, n)))
        if not cyclic and hist[-1][0] != "run":
            hist.append(("run", 0))
        shapes.add(tuple(sorted((c, tuple(sorted(direct[c])), tuple(sorted(listed[c]))) for c in direct)))
        jobs.append((len(jobs), n, direct, listed, set(), hist, rng.randrange(12), {c: [] for c in direct}, set(), set()))
    return jobs, len(shapes)


def check(chk, prop, tier, cyclic):
    from . import engine

    count = (300 if tier == "quick" else 6000)
    jobs, nshapes = random_jobs(cyclic, count, core.SEED * 7 + (14 if cyclic else 1))
    res = engine.replay_many(jobs)
    chk.cov["evaluations"] += len(res)
    chk.cov["distinct_nontrivial"] += nshapes
    records = []
    for job, r in zip(jobs, res):
        if r.get("load_error"):
            chk.finding("%s:engine-n5:Replay.LoadError" % prop, "probe program failed to load: %s" % r["load_error"], {"source": r["src"]})
            continue
        records.append(r["trace"])
        last = r["outcomes"][-1]
        if cyclic:
            continue
        # acyclic: the run returns, every command ran exactly once, the values are the terms of the graph
        if last[0] != "ok":
            chk.finding("%s:engine-n5:Replay.Outcome" % prop, "an acyclic five-command program ended in %s" % (last,), {"source": r["src"], "history": r["hist"], "outcomes": r["outcomes"]})
        elif any(x != 1 for x in r["nexec"]) or any(x != 1 for x in r["ndone"]):
            chk.finding("%s:engine-n5:Replay.ExecutionCounts" % prop, "execution counts %s / %s after a completed run" % (r["nexec"], r["ndone"]),
                        {"source": r["src"], "history": r["hist"]})
        elif r["bad_values"]:
            chk.finding("%s:engine-n5:Replay.TermMismatch" % prop, "result of %s is not the evaluation of its dependency graph" % r["bad_values"][0][0],
                        {"source": r["src"], "history": r["hist"], "bad": r["bad_values"][:3]})
    verdicts = engine.validate_traces(chk, prop, records, shards=min(core.NCPU, max(1, len(records) // 400)))
    by_id = {r["id"]: r for r in res}
    for rec in records:
        v, pos = verdicts[rec["id"]]
        if v != "ok":
            r = by_id[rec["id"]]
            chk.finding("%s:engine-n5:%s" % (prop, v), "trace of a five-command %s program rejected by MPRunAbsTrace at event %d: %s" % ("cyclic" if cyclic else "acyclic", pos - 1, v),
                        {"source": r["src"], "history": r["hist"], "outcomes": r["outcomes"], "events": rec["ev"][:pos][-25:]})
    chk.cov["five_command_programs"] = {"replayed": len(res), "distinct_graphs": nshapes, "kind": "cyclic" if cyclic else "acyclic"}
