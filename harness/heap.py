"""C09: immutability of computed results.  MPHeap.tla (TLC) + histories of real consumers with digests -> MPHeapTrace.tla."""
from __future__ import print_function

import hashlib
import json
import os
import random
import sys
import warnings
from collections import OrderedDict

from . import core, decl

# (column e holds a not-a-number and an infinity as ordinary, non-missing cells: a result is whatever its producer made it)
CSV = "a,b,c,d,e\n-3.5,1,-0.75,10,1.5\n0.5,2,0.25,20,nan\n2.5,0,1.0,-9999,-2\n-9999,3,-1.0,40,inf\n7.25,-2,0.0,55.5,0.25\n"


def digest(arr):
    import numpy as np

    if not isinstance(arr, np.ndarray):
        return ["none", "none", repr(arr)[:40]]
    m = np.ma.getmaskarray(arr)
    d = np.ma.getdata(arr)
    h = hashlib.sha1(m.tobytes() + np.ascontiguousarray(d[~m]).tobytes()).hexdigest()[:16]
    return ["x".join(map(str, arr.shape)), str(arr.dtype), h]


class World(object):
    def __init__(self, wd, libs=None):
        from mpilot.program import Program

        self.netcdf = libs is not None
        self.p = Program(libraries=libs or decl.CSV_LIBS, working_dir=wd)
        self.n = 0
        self.plain = []
        self.fuzzy = []
        self.keep = []
        self.ev = []

    def cls(self, name):
        return self.p.find_command_class(name)

    def add(self, cname, args, fuzzy=None):
        self.n += 1
        name = "%s_%d" % (cname, self.n)
        self.p.add_command(self.cls(cname), name, OrderedDict(args))
        cmd = self.p.commands[name]
        try:
            res = cmd.result
            err = None
        except BaseException as e:
            res, err = None, type(e).__name__
        self.keep.append(res)
        objs = []
        seen = set()
        for c in self.p.commands.values():
            if c.is_finished and id(c._result) not in seen:
                seen.add(id(c._result))
                objs.append(["o%d" % id(c._result)] + digest(c._result))
        self.ev.append({"c": name, "kind": cname, "out": "o%d" % id(res) if err is None else "err:" + err, "objs": objs,
                        "args": {k: (v if not isinstance(v, list) else list(v)) for k, v in args if k.startswith("InField") or k in ("A", "B")}})
        if err is None and res is not None:
            if fuzzy is None:
                fuzzy = bool(getattr(cmd, "is_fuzzy", False))
            (self.fuzzy if fuzzy else self.plain).append(name)
        return name, err


def seed_pool(w):
    w.add("EEMSRead", [("InFileName", "in.csv"), ("InFieldName", "a"), ("MissingVal", -9999)])
    w.add("EEMSRead", [("InFileName", "in.csv"), ("InFieldName", "b"), ("DataType", "Integer")])
    w.add("EEMSRead", [("InFileName", "in.csv"), ("InFieldName", "c")])
    w.add("EEMSRead", [("InFileName", "in.csv"), ("InFieldName", "d"), ("MissingVal", -9999)])
    a, b, c, d = w.plain[:4]
    w.add("EEMSRead", [("InFileName", "in.csv"), ("InFieldName", "e")])
    w.add("CvtToFuzzy", [("InFieldName", a)])
    w.add("CvtToFuzzy", [("InFieldName", c), ("TrueThreshold", 0.5), ("FalseThreshold", -0.5)])
    w.add("CvtToBinary", [("InFieldName", b), ("Threshold", 1), ("Direction", "LowToHigh")])
    w.add("CvtToFuzzyCat", [("InFieldName", b), ("RawValues", [0, 1, 2]), ("FuzzyValues", [-5, 0.5, 7]), ("DefaultFuzzyValue", -9)])


PARAMS = {
    "CvtToFuzzy": [[], [("TrueThreshold", 2), ("FalseThreshold", -1)], [("Direction", "HighToLow")]],
    "CvtFromFuzzy": [[("TrueThreshold", 10), ("FalseThreshold", 0)]],
    "CvtToBinary": [[("Threshold", 0.5), ("Direction", "HighToLow")]],
    "CvtToFuzzyCat": [[("RawValues", [0, 1]), ("FuzzyValues", [-1, 1]), ("DefaultFuzzyValue", 0)]],
    "NormalizeCat": [[("RawValues", [0, 1]), ("NormalValues", [5, -5]), ("DefaultNormalValue", 0)]],
    "CvtToFuzzyCurve": [[("RawValues", [-1, 0, 3]), ("FuzzyValues", [-1, 0.25, 1])]],
    "NormalizeCurve": [[("RawValues", [3, -1, 0]), ("NormalValues", [9, 0, 2])]],
    "CvtToFuzzyZScore": [[], [("TrueThresholdZScore", 0.5), ("FalseThresholdZScore", -0.5)]],
    "NormalizeZScore": [[("TrueThresholdZScore", 1), ("FalseThresholdZScore", -1)], [("TrueThresholdZScore", 1), ("FalseThresholdZScore", -1), ("StartVal", -2), ("EndVal", 2)]],
    "CvtToFuzzyCurveZScore": [[("ZScoreValues", [-1, 0, 1]), ("FuzzyValues", [-1, 0, 1])]],
    "NormalizeCurveZScore": [[("ZScoreValues", [-1, 1]), ("NormalValues", [0, 10])]],
    "CvtToFuzzyMeanToMid": [[("IgnoreZeros", False), ("FuzzyValues", [-1, -0.5, 0, 0.5, 1])], [("IgnoreZeros", True), ("FuzzyValues", [-1, -0.5, 0, 0.5, 1])]],
    "NormalizeMeanToMid": [[("IgnoreZeros", False), ("NormalValues", [0, 1, 2, 3, 4])]],
    "Normalize": [[], [("StartVal", -1), ("EndVal", 1)]],
    "FuzzySelectedUnion": [[("TruestOrFalsest", "Truest"), ("NumberToConsider", 1)], [("TruestOrFalsest", "Falsest"), ("NumberToConsider", 1)]],
}


def consumer_steps(w, rng, cname, first=None):
    """argument lists for one consumer command; `first` forces the first/only input"""
    cls = w.cls(cname)
    ins = cls.inputs
    fz = None
    out = []
    for base in PARAMS.get(cname, [[]]):
        args = list(base)
        if "InFieldNames" in ins:
            want = ins["InFieldNames"].value_type.is_fuzzy
            pool = w.fuzzy if want else w.plain if want is False else w.plain + w.fuzzy
            for n in (1, 2, 3):
                if cname == "FuzzyXOr" and n == 1:
                    continue
                names = [first or rng.choice(pool)] + [rng.choice(pool) for _ in range(n - 1)]
                if n == 3 and rng.random() < 0.5:
                    names[2] = names[0]  # the same result twice
                extra = []
                if "Weights" in ins:
                    extra = [("Weights", [rng.choice([1, 2, 0.5, -1]) for _ in names])]
                if cname == "EEMSWrite":
                    extra = [("OutFileName", "out_%d.csv" % rng.randint(0, 10 ** 6))]
                out.append([("InFieldNames" if cname != "EEMSWrite" else "OutFieldNames", names)] + args + extra)
        elif "OutFieldNames" in ins:
            pool = w.plain + w.fuzzy
            names = [first or rng.choice(pool), rng.choice(pool)]
            if "DimensionFileName" in ins:        # the NetCDF writer: one to three results on the template's dimensions
                names = names + ([rng.choice(pool)] if rng.random() < 0.5 else [])
                out.append([("OutFileName", "out_%d.nc" % rng.randint(0, 10 ** 6)), ("OutFieldNames", names), ("DimensionFileName", "in.nc"), ("DimensionFieldName", "a")])
            else:
                out.append([("OutFileName", "out_%d.csv" % rng.randint(0, 10 ** 6)), ("OutFieldNames", names)])
        elif "InFieldName" in ins and hasattr(ins["InFieldName"], "is_fuzzy"):
            want = ins["InFieldName"].is_fuzzy
            pool = w.fuzzy if want else w.plain if want is False else w.plain + w.fuzzy
            out.append([("InFieldName", first or rng.choice(pool))] + args)
        elif "A" in ins and "B" in ins:
            out.append([("A", first or rng.choice(w.plain)), ("B", rng.choice(w.plain))])
            out.append([("A", rng.choice(w.plain)), ("B", first or rng.choice(w.plain))])
    return out


def compatible(w, cname, name):
    cls = w.cls(cname)
    ins = cls.inputs
    p = ins.get("InFieldNames") or ins.get("OutFieldNames")
    want = p.value_type.is_fuzzy if p is not None else getattr(ins.get("InFieldName") or ins.get("A"), "is_fuzzy", None)
    isf = name in w.fuzzy
    return want is None or want == isf


def check_C09(tier):
    chk = core.Check("C09", tier)
    core.sut()
    warnings.simplefilter("ignore")
    import numpy

    numpy.seterr(all="ignore")
    d = core.scratch_dir("mpv-heapm-")
    cfg = os.path.join(d, "h.cfg")
    mh = 5 if tier == "quick" else 6
    with open(cfg, "w") as f:
        f.write("CONSTANTS MaxObj = 4 MaxHist = %d CopyBeforeAccumulate = TRUE FuzzyProducersClamp = TRUE\nSPECIFICATION Spec\nCHECK_DEADLOCK FALSE\n"
                "PROPERTY Immutable\nINVARIANT FuzzyInRange\n" % mh)
    r = core.run_tlc("MPHeap", cfg, workers=8, timeout=1200, deadlock=True)
    if r.violated or r.error or r.rc != 0:
        sys.stderr.write("MACHINERY FAILURE: MPHeap %s\n%s\n" % (r.violated, r.out[-2000:]))
        sys.exit(2)
    chk.add_tlc("MPHeap", r, "MaxObj=4 MaxHist=%d CopyBeforeAccumulate=TRUE FuzzyProducersClamp=TRUE: Immutable, FuzzyInRange" % mh)
    rng = random.Random(core.SEED + 9)
    root = core.scratch_dir("mpv-heap-")
    records = []
    data_cmds = None

    def world(k):
        wd = os.path.join(root, "w%d" % k)
        os.makedirs(wd)
        with open(os.path.join(wd, "in.csv"), "w") as f:
            f.write(CSV)
        w = World(wd)
        seed_pool(w)
        return w

    # (1) every consumer x every compatible producer as its first / only input (single-input forms of n-ary operators included)
    w0 = world(0)
    data_cmds = sorted(n for n, c in w0.p.command_library.items() if n not in ("EEMSRead", "PrintVars"))
    k = 0
    for cname in data_cmds:
        k += 1
        w = world(k)
        for prod in list(w.plain + w.fuzzy):
            if not compatible(w, cname, prod):
                continue
            for args in consumer_steps(w, rng, cname, first=prod):
                w.add(cname, args)
        records.append({"id": len(records), "ev": w.ev})
    # (2) random histories: later consumers also consume what earlier ones produced (aliases included)
    nh = 60 if tier == "quick" else 1500
    hl = 14 if tier == "quick" else 20
    for h in range(nh):
        k += 1
        w = world(k)
        for step in range(hl):
            cname = rng.choice(data_cmds)
            steps = consumer_steps(w, rng, cname)
            if steps:
                w.add(cname, rng.choice(steps))
        records.append({"id": len(records), "ev": w.ev})
    # (3) the NetCDF library's reader and writer as producers / consumers (results with and without a mask array)
    from . import netcdfio

    for h in range(8 if tier == "quick" else 120):
        k += 1
        wd = os.path.join(root, "w%d" % k)
        os.makedirs(wd)
        g = lambda vals, mask: numpy.ma.array(numpy.array(vals, dtype=float).reshape(2, 3), mask=numpy.array(mask, dtype=bool).reshape(2, 3))
        netcdfio.make_dataset(os.path.join(wd, "in.nc"), (2, 3), {"a": g([0.5, -0.25, 1, 0, 0.75, -1], [0, 1, 0, 0, 0, 0]), "b": g([1, 2, 3, 4, 5, 6], [0, 0, 0, 0, 1, 1]),
                                                                  "c": numpy.ma.array(numpy.arange(6.0).reshape(2, 3) / 4 - 0.5), "d": g([3, 1, 2, 9, 9, 0], [1, 0, 0, 0, 0, 0])}, crs=(h % 2 == 0))
        w = World(wd, decl.NETCDF_LIBS)
        w.add("EEMSRead", [("InFileName", "in.nc"), ("InFieldName", "a")])
        w.add("EEMSRead", [("InFileName", "in.nc"), ("InFieldName", "b")])
        w.add("EEMSRead", [("InFileName", "in.nc"), ("InFieldName", "c")])
        w.add("EEMSRead", [("InFileName", "in.nc"), ("InFieldName", "d"), ("MissingValue", 9)])
        w.add("CvtToFuzzy", [("InFieldName", w.plain[0])])
        w.add("CvtToFuzzy", [("InFieldName", w.plain[2]), ("TrueThreshold", 0.5), ("FalseThreshold", -0.5)])
        for step in range(10):
            cname = rng.choice(["EEMSWrite", "EEMSWrite", "Sum", "FuzzyAnd", "Copy", "EEMSRead", "EEMSRead"])
            if cname == "EEMSRead":
                # the same variables read once more, with other options: what the earlier reads returned is theirs
                opts = rng.choice([[("DataType", "Integer")], [("DataType", "Fuzzy")], [("MissingValue", 0.5)], [("DataType", "Positive Float")], []])
                w.add("EEMSRead", [("InFileName", "in.nc"), ("InFieldName", rng.choice(["a", "c"]))] + opts)
                continue
            steps = consumer_steps(w, rng, cname)
            if steps:
                w.add(cname, rng.choice(steps))
        records.append({"id": len(records), "ev": w.ev})
    nexec = sum(len(r["ev"]) for r in records)
    chk.cov["evaluations"] += nexec
    pairs = set()
    for rec in records:
        for e in rec["ev"]:
            for v in e["args"].values():
                for nm in (v if isinstance(v, list) else [v]):
                    pairs.add((e["kind"], str(nm).split("_")[0]))
    chk.cov["distinct_nontrivial"] += len(pairs)
    tdir = core.scratch_dir("mpv-heapt-")
    tcfg = os.path.join(tdir, "t.cfg")
    with open(tcfg, "w") as f:
        f.write("INIT Init\nNEXT Next\nCHECK_DEADLOCK FALSE\nINVARIANT Report\n")
    path = os.path.join(tdir, "t.ndjson")
    with open(path, "w") as f:
        for rec in records:
            f.write(json.dumps({"id": rec["id"], "ev": [{"c": e["c"], "kind": e["kind"], "out": e["out"], "objs": e["objs"]} for e in rec["ev"]]}) + "\n")
    tr = core.run_tlc("MPHeapTrace", tcfg, workers=1, env={"TRACE_FILE": path}, timeout=1500)
    if tr.rc != 0 or tr.error:
        core.tlc_fail(tr, "MPHeapTrace")
    chk.add_tlc("MPHeapTrace validation", tr, "TRACE_FILE=<digest histories>")
    verdicts = {v[1]: (v[2], v[3]) for v in core.parse_printt(tr.out, "VERDICT")}
    if len(verdicts) != len(records):
        sys.stderr.write("MACHINERY FAILURE: %d verdicts for %d histories\n" % (len(verdicts), len(records)))
        sys.exit(2)
    chk.cov["traces_validated_against_impl"] += len(records)
    for rec in records:
        v, pos = verdicts[rec["id"]]
        if v != "ok":
            e = rec["ev"][pos - 2]
            chk.finding("C09:%s:%s" % (e["kind"], v), "executing %s changed an already finished result (%s)" % (e["kind"], v),
                        {"consumer": e["c"], "arguments": e["args"], "history": [[x["c"], x["args"]] for x in rec["ev"][:pos - 1]][-8:]})
        elif len(chk.cov["samples"]) < 2 and rec["id"] % 37 == 5:
            chk.sample({"history": [[x["c"], x["args"], x["out"]] for x in rec["ev"]][:12]})
    chk.cov["rule"] = ("TLC checks Immutable and FuzzyInRange on MPHeap for every history of <= 5 producer/consumer steps over the five consumer kinds (negative configs refute it without the copy or the "
                       "producers' clamp); on the real code every consumer command is executed with every compatible finished producer as its first/only input (1-3 inputs, repeated inputs, alias-returning "
                       "single-input forms) and in random histories where later consumers consume earlier results; after every execution shape, element type, mask and unmasked values of every finished "
                       "result object are digested and TLC validates that no digest of a known object ever changes. non-trivial = distinct (consumer command, producer command) pairs exercised")
    chk.cov["exhaustive"] = False
    chk.assumptions += ["bytes beneath a result's mask may change (the in-place clamp rewrites them)"]
    return chk.finish()
