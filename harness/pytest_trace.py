"""Run the repository's own test-suite (copied next to the SUT snapshot) with the external tracer installed and write one
engine trace per successful Program.run() to VERIF_TRACE_OUT (ndjson, the MPRunAbsTrace record format).
Usage (cwd = the snapshot directory containing mpilot/ and tests/):  python -m harness.pytest_trace"""
import json
import os
import sys


def main():
    sys.path.insert(0, os.getcwd())
    from harness import tracer  # noqa
    import pytest
    from mpilot.program import Program
    from mpilot.commands import Command
    from mpilot.utils import flatten

    out = open(os.environ["VERIF_TRACE_OUT"], "w")
    state = {"n": 0, "test": ""}
    orig_run = Program.run

    def deps_of(prog):
        deps = {}
        for name, c in prog.commands.items():
            refs = []
            for a in c.arguments:
                p = c.inputs.get(a.name)
                if p is None:
                    continue
                try:
                    v = p.clean(a.value, prog, a.lineno)
                except BaseException:
                    continue
                for x in flatten(v if isinstance(v, (list, tuple)) else [v]):
                    if isinstance(x, Command) and x.result_name in prog.commands and x.result_name not in refs:
                        refs.append(x.result_name)
            deps[name] = refs
        return deps

    def traced_run(self):
        try:
            deps = deps_of(self)
        except BaseException:
            deps = None
        tracer.install()
        n0 = len(tracer.EV)
        tracer.EV.append({"ev": "call_run"})
        del tracer.STACK[:]
        try:
            r = orig_run(self)
        except BaseException:
            del tracer.EV[n0:]
            del tracer.STACK[:]
            raise
        tracer.EV.append({"ev": "ret_run", "ok": True, "cls": "", "cause": ""})
        ev = [e for e in tracer.EV[n0:] if e["ev"] in ("call_run", "ret_run", "exec_begin", "exec_end", "exec_fail", "read", "vread")]
        del tracer.EV[n0:]
        if deps is not None and all(e.get("c") in deps for e in ev if "c" in e) and all(e.get("d") in deps for e in ev if "d" in e):
            state["n"] += 1
            out.write(json.dumps({"id": state["n"], "strict": False, "deps": deps, "fails": [], "late": [], "ignored": {k: [] for k in deps},
                                  "ev": ev, "test": state["test"]}) + "\n")
            out.flush()
        return r

    Program.run = traced_run

    class Plugin(object):
        def pytest_runtest_setup(self, item):
            state["test"] = item.nodeid
            tracer.reset()

    rc = pytest.main(["-q", "-p", "no:cacheprovider", "tests"], plugins=[Plugin()])
    out.close()
    sys.exit(0 if rc in (0, 1) else 3)


if __name__ == "__main__":
    main()
