"""Entry point: /verif/check <property> [--tier quick|thorough] [--replay file]"""
from __future__ import print_function

import argparse
import importlib
import os
import sys

REGISTRY = {
    "C01": ("engine", "check_C01"),
    "C14": ("engine", "check_C14"),
    "C20": ("paramcheck", "check_C20"),
    "C18": ("netcdfio", "check_C18"),
    "C17": ("csvio", "check_C17"),
    "C09": ("heap", "check_C09"),
    "C19": ("registry", "check_C19"),
    "C15": ("serial", "check_C15"),
    "C16": ("eems2", "check_C16"),
    "C10": ("syntax", "check_C10"),
    "C11": ("syntax", "check_C11"),
    "C12": ("validate", "check_C12"),
    "C13": ("validate", "check_C13"),
    "C02": ("model", "check_C02"),
    "C03": ("eems", "check_C03"),
    "C04": ("eems", "check_C04"),
    "C05": ("eems", "check_C05"),
    "C06": ("eems", "check_C06"),
    "C07": ("eems", "check_C07"),
    "C08": ("eems", "check_C08"),
}


def main():
    ap = argparse.ArgumentParser()
    ap.add_argument("prop")
    ap.add_argument("--tier", default=os.environ.get("VERIF_TIER") or "quick", choices=["quick", "thorough"])
    ap.add_argument("--replay")
    a = ap.parse_args()
    if a.prop == "selftest":
        from . import selftest
        sys.exit(selftest.main())
    if a.prop not in REGISTRY:
        sys.stderr.write("unknown property %s\n" % a.prop)
        sys.exit(2)
    mod, fn = REGISTRY[a.prop]
    m = importlib.import_module("harness." + mod)
    if a.replay:
        sys.exit(getattr(m, "replay_" + a.prop)(a.replay) if hasattr(m, "replay_" + a.prop) else generic_replay(a.replay))
    try:
        rc = getattr(m, fn)(a.tier)
    except SystemExit:
        raise
    except BaseException:
        import traceback
        traceback.print_exc()
        sys.stderr.write("MACHINERY FAILURE (exception in harness)\n")
        sys.exit(2)
    sys.exit(rc)


def generic_replay(path):
    """Print the recorded case, re-run the property's quick check on the current tree and report whether the
    same signature is raised again (exit 1) or not (exit 0)."""
    import json
    import subprocess
    with open(path) as f:
        r = json.load(f)
    print(json.dumps(r, indent=1)[:6000])
    prop, sig = r["property"], r["signature"]
    here = os.path.dirname(os.path.dirname(os.path.abspath(__file__)))
    p = subprocess.run([os.path.join(here, "check"), prop, "--tier", "quick"], stdout=subprocess.PIPE, stderr=subprocess.STDOUT)
    out = p.stdout.decode("utf-8", "replace")
    again = ("signature: %s" % sig) in out or ("KNOWN-FINDING: property=%s %s " % (prop, sig)) in out
    print("replay: signature %s %s on the current tree" % (sig, "REPRODUCES" if again else "does not reproduce"))
    if again:
        print("VIOLATION property=%s replay=%s" % (prop, path))
    return 1 if again else 0


if __name__ == "__main__":
    main()
