"""C17: CSV fidelity.  CsvIO.tla (TLC) -> files on disk -> real EEMSRead / EEMSWrite -> CsvIOTrace.tla."""
from __future__ import print_function

import json
import os
import random
import re
import struct
import sys
import threading
from collections import OrderedDict

from . import core
from .eems import _tla_to_json, _STATE_RE

MISSING = -9999.0
# the declared missing value varies from case to case: the classic sentinel, zero (a falsy number), a huge and a small one
MISSING_CHOICES = [-9999.0, 0.0, -9999.0, 1e30, -1.0, 0.0]
MISSING_TEXT = {-9999.0: ["-9999", "-9999.0", "-9.999e3"], 0.0: ["0", "0.0", "-0.0", "0e0"], 1e30: ["1e30", "1E+30", "1000000000000000019884624838656"], -1.0: ["-1", "-1.0", "-10e-1"]}
BAD = ["abc", "", "NULL", "1.2.3", "1e", "--"]


def pick_values(rng, integral, missing=MISSING):
    """concrete doubles for the ids v1..v4 (distinct, never equal to the missing value)"""
    if integral:
        pool = [3.0, -7.0, 0.0, 123456789.0, 1.0, -1.0, 2.0 ** 52, 42.0]
    else:
        pool = [0.1, -0.0, 0.0, 5e-324, 1.7976931348623157e308, -2.2250738585072014e-308, 1e-05, 1e22, 3.141592653589793, -1e-300,
                0.30000000000000004, 123456.789, 2.0 ** 53 + 2, 1.0000000000000002]
        for _ in range(6):
            x = struct.unpack("<d", struct.pack("<Q", rng.getrandbits(64)))[0]
            if x == x and abs(x) != float("inf"):
                pool.append(x)
    pool = [x for x in pool if x != missing]
    vals = []
    seen = set()
    while len(vals) < 4:
        x = rng.choice(pool)
        if x.hex() not in seen:
            seen.add(x.hex())
            vals.append(x)
    # one value is always a close neighbour of the missing value: only cells EQUAL to it may be masked
    import math
    if integral:
        near = [missing + 1, missing - 1, missing + 2, missing - 2, missing + 5] if abs(missing) < 1e15 else [1e30 - 2.0 ** 60, 2.0 ** 62]
    else:
        near = [math.nextafter(missing, math.inf), math.nextafter(missing, -math.inf), missing * (1 + 1e-9) if missing else 1e-9, missing - 1e-4]
    near = [x for x in near if x != missing and x.hex() not in {v.hex() for v in vals[:3]}]
    vals[3] = rng.choice(near)
    return dict(zip(["v1", "v2", "v3", "v4"], vals))


def csv_field(s):
    return '"%s"' % s.replace('"', '""') if any(c in s for c in ',"\n') else s


def file_text(f, vals, rng, missing=MISSING):
    header, lines = f
    eol = rng.choice(["\n", "\r\n"])
    out = [",".join(csv_field(h) for h in header)]
    for ln in lines:
        if ln[0] == "blank":
            out.append("")
        else:
            cells = []
            for c in ln[1]:
                if c[0] == "num":
                    x = vals[c[1]]
                    cells.append(repr(x) if not float(x).is_integer() or rng.random() < 0.5 or abs(x) > 1e15 or x == 0 else str(int(x)))
                elif c[0] == "miss":
                    cells.append(rng.choice(MISSING_TEXT[missing]))
                else:
                    cells.append(rng.choice([b for b in BAD if b or len(ln[1]) > 1]))   # an empty single cell would be a blank line
            out.append(",".join(cells))
    return eol.join(out) + (eol if rng.random() < 0.7 else "")


def gen_cases(rows, cols, dump=True, workers=8):
    d = core.scratch_dir("mpv-csv-")
    cfg = os.path.join(d, "c.cfg")
    with open(cfg, "w") as f:
        f.write("CONSTANTS MaxRows = %d MaxCols = %d\nINIT Init\nNEXT Next\nCHECK_DEADLOCK FALSE\n" % (rows, cols))
        for inv in ("RowOrder", "ColumnIndependent", "MaskExact", "RoundTrip", "ErrorLineIsPhysical"):
            f.write("INVARIANT %s\n" % inv)
    dumpf = os.path.join(d, "st") if dump else None
    r = core.run_tlc("CsvIO", cfg, workers=workers, timeout=1500, dump=dumpf)
    if r.violated or r.error or r.rc != 0:
        sys.stderr.write("MACHINERY FAILURE: CsvIO %s\n%s\n" % (r.violated, r.out[-2000:]))
        sys.exit(2)
    cases = []
    if dump:
        with open(dumpf + ".dump") as fh:
            txt = fh.read()
        for blk in _STATE_RE.split(txt):
            if "done = TRUE" not in blk:
                continue
            parts = {}
            for part in re.split(r"^/\\ ", blk.strip(), flags=re.M):
                if part.strip():
                    k, _, v = part.partition(" = ")
                    parts[k.strip()] = v.strip()
            cases.append({"file": _tla_to_json(parts["file"]), "field": json.loads(parts["field"]), "missing": parts["missing"] == "TRUE",
                          "dtype": json.loads(parts["dtype"]), "out": _tla_to_json(parts["out"]), "wrote": parts["wfile"] != "<<>>"})
        os.unlink(dumpf + ".dump")
    return r, cases


def abstract_cells(arr, vals, np, missing=MISSING):
    inv = {float(v).hex(): k for k, v in vals.items()}
    mask = np.ma.getmaskarray(arr)
    data = np.ma.getdata(arr)
    out = []
    for i in range(len(data)):
        x = float(data[i])
        if x == missing:
            out.append(["miss", bool(mask[i])])
        else:
            out.append([inv.get(x.hex(), "?%r" % x), bool(mask[i])])
    return out


def long_table(chk, np, Program, libs, wd, rng):
    """row order and count on a file far longer than the model's tables (blank lines sprinkled in)"""
    n = 5000 + rng.randint(0, 300)
    vals = [float(i) * 0.5 - 7 for i in range(n)]
    lines = ["idx,v"]
    for i, x in enumerate(vals):
        lines.append("%d,%r" % (i, x))
        if i % 977 == 5:
            lines.append("")
    with open(os.path.join(wd, "long.csv"), "w") as f:
        f.write("\n".join(lines) + "\n")
    p = Program(libraries=libs, working_dir=wd)
    p.add_command(p.find_command_class("EEMSRead"), "L", OrderedDict([("InFileName", "long.csv"), ("InFieldName", "v")]))
    chk.cov["evaluations"] += 1
    try:
        arr = p.commands["L"].result
        ok = len(arr) == n and bool(np.array_equal(np.ma.getdata(arr), np.array(vals))) and not np.ma.getmaskarray(arr).any()
    except BaseException as e:
        ok = False
    if not ok:
        chk.finding("C17:csv:C17.Order:long-table", "a %d-row column did not come back complete and in row order" % n, {"rows": n})


def odd_headers(chk, np, Program, libs, wd):
    """header names that need CSV quoting because they contain a line break, and names containing characters that some line
    splitters treat as line ends (form feed, NEL, U+2028): the columns behind them must still be found and read in order"""
    # " lead" / "lead" and "trail " / "trail": a header name is its exact text, blanks included, and never another column's
    names = ["plain", "elev\n(m)", "ff\x0cname", "nel\x85name", "ls\u2028name", " lead", "lead", "trail ", "trail", "last"]
    rows = [[float(10 * r + c) for c in range(len(names))] for r in range(4)]
    import csv as _csv
    with open(os.path.join(wd, "odd.csv"), "w", newline="", encoding="utf-8") as f:
        w = _csv.writer(f, lineterminator="\n")
        w.writerow(names)
        w.writerows(rows)
    for ci, nm in enumerate(names):
        p = Program(libraries=libs, working_dir=wd)
        p.add_command(p.find_command_class("EEMSRead"), "R", OrderedDict([("InFileName", "odd.csv"), ("InFieldName", nm)]))
        chk.cov["evaluations"] += 1
        try:
            arr = p.commands["R"].result
            ok = [float(x) for x in np.ma.getdata(arr)] == [r[ci] for r in rows]
            got = repr(arr)[:120]
        except BaseException as e:
            ok, got = False, "%s: %s" % (type(e).__name__, str(e)[:120])
        if not ok:
            chk.finding("C17:csv:C17.Header:odd-name", "column %r was not read correctly: %s" % (nm, got), {"header": names, "requested": nm})
    from mpilot.exceptions import MPilotError
    for nm in (" plain", "plain ", " last", "Plain"):        # absent names that differ from a present one by a blank or by case: a missing header is reported
        p = Program(libraries=libs, working_dir=wd)
        p.add_command(p.find_command_class("EEMSRead"), "R", OrderedDict([("InFileName", "odd.csv"), ("InFieldName", nm)]))
        chk.cov["evaluations"] += 1
        try:
            got = repr(p.commands["R"].result)[:120]
        except MPilotError:
            continue
        except BaseException as e:
            got = "%s: %s" % (type(e).__name__, str(e)[:120])
        chk.finding("C17:csv:C17.AcceptedBadFile:near-header", "absent column %r was not reported as missing: %s" % (nm, got), {"header": names, "requested": nm})


def check_C17(tier):
    chk = core.Check("C17", tier)
    core.sut()
    import warnings

    warnings.simplefilter("ignore")
    import numpy as np
    from mpilot.program import Program
    from mpilot.exceptions import MPilotError
    from vprobe import cmds as vp

    if tier == "thorough":
        rbig, _ = gen_cases(3, 2, dump=False, workers=16)
        chk.add_tlc("CsvIO laws on three-row tables (no replay)", rbig, "MaxRows=3 MaxCols=2 invariants RowOrder, ColumnIndependent, MaskExact, RoundTrip, ErrorLineIsPhysical")
    r, cases = gen_cases(2, 2)
    chk.add_tlc("CsvIO replay plan", r, "MaxRows=2 MaxCols=2")
    chk.cov["model_cases"] = len(cases)
    step = 10 if tier == "quick" else 1
    cases = [c for i, c in enumerate(cases) if i % step == core.SEED % step]
    rng = random.Random(core.SEED + 17)
    wd = core.scratch_dir("mpv-csvwd-")
    libs = ("mpilot.libraries.eems.csv", "vprobe")
    records = []
    info = {}
    for ci, case in enumerate(cases):
        integral = case["dtype"] == "Integer"
        mval = MISSING_CHOICES[(ci + core.SEED) % len(MISSING_CHOICES)]
        if integral and abs(mval) >= 1e15:
            mval = MISSING
        vals = pick_values(rng, integral, mval)
        text = file_text(case["file"], vals, rng, mval)
        path = os.path.join(wd, "in.csv")
        with open(path, "w", newline="") as f:
            f.write(text)
        p = Program(libraries=libs, working_dir=wd)
        args = OrderedDict([("InFileName", "in.csv"), ("InFieldName", case["field"])])
        if case["missing"]:
            args["MissingVal"] = rng.choice([int(mval), mval, MISSING_TEXT[mval][0]] if abs(mval) < 1e15 else [mval, MISSING_TEXT[mval][0]])
        if case["dtype"] == "Integer" or rng.random() < 0.5:
            args["DataType"] = case["dtype"]
        p.add_command(p.find_command_class("EEMSRead"), "R", args)
        wobs = []
        try:
            arr = p.commands["R"].result
            want = np.integer if case["dtype"] == "Integer" else np.floating
            obs = ["ok", abstract_cells(arr, vals, np, mval), bool(isinstance(arr, np.ndarray) and np.issubdtype(arr.dtype, want) and arr.ndim == 1)]
        except BaseException as e:
            m = re.search(r"on line (\d+)", str(getattr(e, "problem", "")) + str(e))
            cls = type(e).__name__
            obs = ["err", cls, int(m.group(1)) if m else 0, isinstance(e, MPilotError)]
            arr = None
        if case["wrote"] and arr is not None:
            # write the column back under two names that need CSV quoting / contain spaces, then read it again
            vp.ARRAYS["k"] = arr
            q = Program(libraries=libs, working_dir=wd)
            vp.ARRAYS["r"] = arr[::-1].copy()
            q.add_command(q.find_command_class("ArrayConst"), "x,y", {"Key": "k"})
            q.add_command(q.find_command_class("ArrayConst"), "out 1", {"Key": "r"})
            # (every third case lists the first result twice: the listed order is what is written, one column per listed name)
            wnames = ["x,y", "out 1"] + (["x,y"] if ci % 3 == 0 else [])
            q.add_command(q.find_command_class("EEMSWrite"), "W", OrderedDict([("OutFileName", "out.csv"), ("OutFieldNames", wnames)]))
            q.add_command(q.find_command_class("EEMSRead"), "B", OrderedDict([("InFileName", "out.csv"), ("InFieldName", "x,y")] + ([("DataType", "Integer")] if integral else [])))
            try:
                q.commands["W"].result
                import csv as _csv
                with open(os.path.join(wd, "out.csv")) as f:
                    rows = list(_csv.reader(f))
                hdr = rows[0]
                back = q.commands["B"].result
                rowsok = all(len(r) == len(wnames) for r in rows[1:]) and len(rows) - 1 == len(arr) and \
                    all(r[0] == r[-1] for r in rows[1:] if len(wnames) == 3)
                wobs = ["ok", abstract_cells(back, vals, np, mval), hdr, wnames, bool(rowsok)]
            except BaseException as e:
                wobs = ["err:" + type(e).__name__, [], [], [], False]
        rid = len(records)
        records.append({"id": rid, "file": case["file"], "field": case["field"], "missing": case["missing"], "dtype": case["dtype"], "obs": obs, "wobs": wobs})
        info[rid] = (text, vals, args)
    chk.cov["evaluations"] += len(records)
    chk.cov["distinct_nontrivial"] += len([c for c in cases if len(c["file"][1]) >= 2])
    shards = min(core.NCPU, max(1, len(records) // 1500))
    tdir = core.scratch_dir("mpv-csvt-")
    tcfg = os.path.join(tdir, "t.cfg")
    with open(tcfg, "w") as f:
        f.write("CONSTANTS MaxRows = 2 MaxCols = 2\nINIT TInit\nNEXT TNext\nCHECK_DEADLOCK FALSE\nINVARIANT TReport\n")
    results = [None] * shards
    files = []
    for s in range(shards):
        path = os.path.join(tdir, "t%d.ndjson" % s)
        with open(path, "w") as f:
            for rec in records[s::shards]:
                f.write(json.dumps(rec) + "\n")
        files.append(path)

    def work(i):
        results[i] = core.run_tlc("CsvIOTrace", tcfg, workers=1, env={"TRACE_FILE": files[i]}, timeout=1500)

    ths = [threading.Thread(target=work, args=(i,)) for i in range(shards)]
    for t in ths:
        t.start()
    for t in ths:
        t.join()
    verdicts = {}
    tot = core.TLCResult()
    for tr in results:
        if tr.rc != 0 or tr.error:
            core.tlc_fail(tr, "CsvIOTrace")
        for v in core.parse_printt(tr.out, "VERDICT"):
            verdicts[v[1]] = v[2]
        tot.states += tr.states
        tot.distinct += tr.distinct
        tot.wall = max(tot.wall, tr.wall)
    chk.add_tlc("CsvIOTrace validation (%d shards)" % shards, tot, "TRACE_FILE=<recorded reads/writes>")
    if len(verdicts) != len(records):
        sys.stderr.write("MACHINERY FAILURE: %d verdicts for %d records\n" % (len(verdicts), len(records)))
        sys.exit(2)
    chk.cov["traces_validated_against_impl"] += len(records)
    for rec in records:
        v = verdicts[rec["id"]]
        text, vals, args = info[rec["id"]]
        if v != "ok" and v.startswith("C17"):
            chk.finding("C17:csv:%s:%s" % (v, rec["dtype"]), "CSV %s: %s" % ("round trip" if "RoundTrip" in v or "Header" in v else "read", v),
                        {"file_text": text, "abstract_file": rec["file"], "field": rec["field"], "missing": rec["missing"], "arguments": {k: str(x) for k, x in args.items()}, "values": {k: x.hex() for k, x in vals.items()},
                         "observed": rec["obs"], "written_and_read_back": rec["wobs"]})
        elif len(chk.cov["samples"]) < 3 and rec["id"] % 911 == 5:
            chk.sample({"file_text": text, "arguments": {k: str(x) for k, x in args.items()}, "observed": rec["obs"], "written_and_read_back": rec["wobs"]})
    long_table(chk, np, Program, libs, wd, rng)
    odd_headers(chk, np, Program, libs, wd)
    chk.cov["rule"] = ("TLC enumerates tables (<= 2 rows (thorough 3) x <= 2 columns; cells: four distinct numbers, the missing value, non-numeric text; blank lines; short rows; header names with spaces and commas), "
                       "every requested field incl. an absent one, MissingVal given or not, Float/Integer, and checks RowOrder, ColumnIndependent, MaskExact, RoundTrip, ErrorLineIsPhysical on CsvIO.Read/Write; "
                       "the tables (quick: a seed-dependent tenth of them) are written to disk with concrete doubles (random bit patterns, subnormals, extremes, -0.0, integral values; LF/CRLF), read by the real EEMSRead through "
                       "Command.result, the column written by the real EEMSWrite under names that need quoting and read back; values are compared by float.hex identity and every observation is validated "
                       "by TLC. non-trivial = table with at least two lines")
    chk.cov["exhaustive"] = False
    chk.assumptions += ["Integer reads are exercised on integral values only (how fractions are converted is not stated)", "how a missing cell is printed by EEMSWrite is not part of the round trip"]
    return chk.finish()
